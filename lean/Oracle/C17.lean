/-
  Oracle.C17 — correspondence + property judge for C16 (intersection point) and C17 (edge distances,
  projection, interpolation, polylines).  Line protocol: see harness/c17.go.

  For every line
    * the modelled functions (S2.EdgeNum, bit-exact soft-float / exact big.Float model) are recomputed
      → `diff` on mismatch;
    * the implementation's OWN outputs are judged in exact rational arithmetic (S2.IA) against the
      exact geometry of the input floats → `propfail <clause>`.
  Clauses (C16): bitident, bitident-zero-sign, nonfinite, unit, acc, hemi, stable-accept,
                 collinear-point.
  Clauses (C17): nonfinite, zero-endpoint, dist-err, dist-endpoint (known class D57: suffix -maxpointerror), thresh, thresh-max, interior-implies,
                 maxdist-err, angle-conv, project-circle, project-between, project-dist, interp-ends,
                 interp-mid, interp-frac, interp-frac-proj, ee-err, ee-thresh, ee-max-err, ee-closest-*,
                 pl-*.
-/
import Oracle.Basic
import S2.Exact
import S2.Pred
import S2.EdgeNum
import S2.IA
namespace Oracle.C17
open Oracle S2 S2.Exact S2.EdgeNum S2.IA

/-! ### parsing helpers -/

def parsePts? : List String → Option (List V3)
  | [] => some []
  | a :: b :: c :: rest => do
    let v ← parseV3? a b c
    let r ← parsePts? rest
    pure (v :: r)
  | _ => none

def parseFList? (s : String) : Option (List F64) := parseList? parseF64? s

def canonTok (t : String) : String :=
  match parseF64? t with
  | some v => if t.length == 16 && v.isNaN then "nan" else t
  | none => t

def verdictC (model impl : List String) (prop : Option String) : String :=
  verdictP (model.map canonTok) (impl.map canonTok) prop

def finV (v : V3) : Bool := finite3 v

/-- common exponent of a list of floats (min exponent of the non-zero finite ones) -/
def commonExp (l : List F64) : Int :=
  l.foldl (fun e x => if x.isFinite && !x.isZero then min e x.expo else e) 0

def toI (e : Int) (x : F64) : Int := x.toIntAt e
def toIV (e : Int) (v : V3) : IV3 := ⟨toI e v.x, toI e v.y, toI e v.z⟩
def comps (l : List V3) : List F64 := l.flatMap fun v => [v.x, v.y, v.z]
/-- exact value of a float as a fraction -/
def qF (x : F64) : Q := if x.expo ≥ 0 then ⟨toI 0 x, 1⟩ else ⟨toI x.expo x, 2 ^ (-x.expo).toNat⟩
def qPow2 (k : Nat) : Q := ⟨1, 2 ^ k⟩
def f64OfQ (q : Q) : F64 := F64.roundNE (decide (q.num < 0)) q.num.natAbs q.den
def bitEq (a b : V3) : Bool := a == b

def firstSome (l : List (Option String)) : Option String :=
  let fs := l.filterMap id
  match fs with
  | [] => none
  | c :: _ => some (c ++ (if fs.length > 1 then " all=" ++ ",".intercalate (fs.map fun s => (s.splitOn " ").headD "") else ""))

def clauseIf (c : Bool) (s : String) : Option String := if c then some s else none

/-! ### constants -/

/-- the documented intersection error as the property states it: 8 · 2^-53 radians -/
def isectEps : Q := ⟨8, 2 ^ 53⟩
/-- `dblEpsilon` (the s2 decimal constant), used for the documented unit-length guarantee |p| ∈ 1 ± 2ε -/
def qEps : Q := ⟨2220446049250313, 10 ^ 31⟩
/-- tolerance used where the library documents none (Project / Interpolate / polylines): 2^-46 rad ≈ 1.4e-14 -/
def tolAngle : Q := qPow2 46

def unitOK (P : IV3) (S : Nat) : Bool :=
  -- (1-2ε)² ≤ |P|²/S² ≤ (1+2ε)²
  let n2 : Q := ⟨inorm2 P, S * S⟩
  let lo := (Q.one - Q.ofNat 2 * qEps); let hi := (Q.one + Q.ofNat 2 * qEps)
  Q.le (lo * lo) n2 && Q.le n2 (hi * hi)

/-! ### C16 -/

def perm (k : Nat) (a0 a1 b0 b1 : V3) : V3 × V3 × V3 × V3 :=
  let (p0, p1) := if k % 2 == 1 then (a1, a0) else (a0, a1)
  let (q0, q1) := if (k / 2) % 2 == 1 then (b1, b0) else (b0, b1)
  if (k / 4) % 2 == 1 then (q0, q1, p0, p1) else (p0, p1, q0, q1)

def handleIsect (args res : List String) : String :=
  match parsePts? args with
  | some [a0, a1, b0, b1] =>
    if res.length != 33 then "bad isect-arity" else
    match parsePts? (res.take 24), parseBool? (res.getD 24 ""), parsePts? ((res.drop 25).take 6),
          parseBool? (res.getD 32 "") with
    | some rs, some sok, some [sp, ep], some _ce =>
      let cs := res.getD 31 ""
      if cs != "0" then "bad isect-notcrossing" else
      if !(finV a0 && finV a1 && finV b0 && finV b1) then "bad isect-nonfinite-input" else
      -- model
      let mRs := (List.range 8).map fun k =>
        let (p0, p1, q0, q1) := perm k a0 a1 b0 b1
        intersection p0 p1 q0 q1
      let mS := intersectionStable a0 a1 b0 b1
      let mE := intersectionExact a0 a1 b0 b1
      let model : List String :=
        mRs.flatMap showV3 ++ [showBool mS.isSome] ++ showV3 (mS.getD zero3) ++ showV3 mE ++
          [cs, showBool (compareEdges a0 a1 b0 b1)]
      -- judge
      let allFin := rs.all finV && finV sp && finV ep
      let prop : Option String :=
        if !allFin then some "nonfinite" else
        let e := commonExp (comps ([a0, a1, b0, b1] ++ rs ++ [sp, ep]))
        let S : Nat := 2 ^ (-e).toNat
        let A0 := toIV e a0; let A1 := toIV e a1; let B0 := toIV e b0; let B1 := toIV e b1
        let r0 := rs.headD zero3
        let bitident : Option String :=
          if rs.all (fun r => bitEq r r0) then none
          else if rs.all (fun r => V3.feq r r0) then some "bitident-zero-sign"
          else some "bitident"
        let units := clauseIf (!(rs.all fun r => unitOK (toIV e r) S)) "unit"
        let NA := A0.cross A1; let NB := B0.cross B1
        let X0 := NA.cross NB
        -- quantifier guard: crossing angle (angle between the two great circles) at least 1e-15, or exactly collinear
        let angleTooSmall := !X0.isZero &&
          Q.lt (Q.ofInt (inorm2 X0) * ⟨10 ^ 32, 1⟩) (Q.ofInt (inorm2 NA * inorm2 NB) * ⟨81, 100⟩)
        if angleTooSmall then some "precondition-angle-out-of-range" else
        if X0.isZero then
          -- exactly collinear edges: the result must be an input endpoint lying on both closed edges
          let ends := [(a0, A0), (a1, A1), (b0, B0), (b1, B1)]
          let onBoth (P : IV3) : Bool :=
            (inArcClosed P A0 A1 || P == A0 || P == A1) && (inArcClosed P B0 B1 || P == B0 || P == B1)
          let good (r : V3) : Bool := ends.any fun (v, V) => V3.feq r v && onBoth V
          firstSome [bitident, clauseIf (!(rs.all good)) "collinear-point", units]
        else
          match exactCrossingClosed A0 A1 B0 B1 with
          | none => some "precondition-noexactcrossing"
          | some X =>
            let accs := rs.map fun r => angleLe (toIV e r) X isectEps
            -- KNOWN class F5: BOTH edges within 2^-20 rad of antipodal (|a0+a1| < 2^-20, |b0+b1| < 2^-20): the
            -- hemisphere test of `Intersection` is then decided by the normalisation error of the inputs
            let nearAnti (U V : IV3) : Bool := decide (inorm2 (U.add V) * 2 ^ 40 < inorm2 U)
            let hemi := clauseIf (rs.any fun r => idot (toIV e r) X ≤ 0)
              (if nearAnti A0 A1 && nearAnti B0 B1 then "hemi-antipodal" else "hemi")
            let acc := clauseIf (accs.any (· == .no)) "acc"
            let stab : Option String :=
              if sok then
                let SP := toIV e sp
                clauseIf (angleLe SP X isectEps == .no && angleLe SP X.neg isectEps == .no) "stable-accept"
              else none
            firstSome [bitident, hemi, acc, units, stab]
      if prop == some "precondition-angle-out-of-range" then "bad isect-angle-out-of-range"
      else if prop == some "precondition-noexactcrossing" then "bad isect-noexactcrossing"
      else verdictC model res prop
    | _, _, _, _ => "bad isect-res"
  | _ => "bad isect-args"

/-! ### C17 : point–edge -/

def getF (a : Array String) (i : Nat) : Option F64 := parseF64? (a.getD i "")
def getV (a : Array String) (i : Nat) : Option V3 := parseV3? (a.getD i "") (a.getD (i+1) "") (a.getD (i+2) "")
def getB (a : Array String) (i : Nat) : Option Bool := parseBool? (a.getD i "")

def negOneBits : UInt64 := 0xBFF0000000000000
def infBits : UInt64 := 0x7FF0000000000000

/-- |v − w| ≤ tol for enclosure v and exact w -/
def withinI (v : I) (w tol : Q) : Bool := !(Q.lt (w + tol) v.lo) && !(Q.lt v.hi (w - tol))

/-- error bound to use for a computed chord distance `d` whose true value is enclosed by `T`:
    the documented function evaluated at the computed and at the true value (the larger) -/
def errBound (d : F64) (T : I) (goE : F64) : Q :=
  let e1 := qF goE
  let e2 := qF (minUpdateDistanceMaxError (f64OfQ T.hi))
  let e3 := qF (minUpdateDistanceMaxError d)
  Q.max e1 (Q.max e2 e3)

structure PerM where
  m : F64
  ur : F64
  uok : Bool
  idl : Bool
  vr : F64
  vok : Bool
  iidl : Bool
  xr : F64
  xok : Bool
  em : F64

def parsePerM (r : Array String) (base : Nat) (m : F64) : Option PerM := do
  let ur ← getF r base; let uok ← getB r (base+1); let idl ← getB r (base+2)
  let vr ← getF r (base+3); let vok ← getB r (base+4); let iidl ← getB r (base+5)
  let xr ← getF r (base+6); let xok ← getB r (base+7); let em ← getF r (base+8)
  pure ⟨m, ur, uok, idl, vr, vok, iidl, xr, xok, em⟩

def handlePedist (args res : List String) : String :=
  match parsePts? (args.take 9), parseFList? (args.getD 9 "") with
  | some [x, a, b], some ms =>
    let r := res.toArray
    let nm := ms.length
    if args.length != 10 || r.size != 7 + 10 * nm + 23 then "bad pedist-arity" else
    let o := 7 + 10 * nm
    let perms? : Option (List PerM) := (List.range nm).mapM fun k => parsePerM r (7 + 10 * k) (ms.getD k fz)
    match getF r 0, getB r 1, getF r 2, getB r 3, getF r 4, getF r 5, getF r 6, perms?,
          getV r o, getF r (o+3), getF r (o+4) with
    | some d, some _ok0, some di, some oki, some ang, some gE, some _gEi, some pms, some pj, some frac, some fp =>
      match getV r (o+5), getV r (o+8), getV r (o+11), getV r (o+14), getV r (o+17) with
      | some i0, some i1, some iF, some ih, some ip =>
        if !(finV x && finV a && finV b) || ms.any (·.isNaN) then "bad pedist-nonfinite-input" else
        -- model
        let md := updateMinDistance x a b fz true
        let mdi := interiorDist x a b fz true
        let mPer : List String := pms.flatMap fun p =>
          let u := updateMinDistancePub x a b p.m
          let v := updateMinInteriorDistance x a b p.m
          let xm := updateMaxDistance x a b p.m
          [showF64 u.1, showBool u.2, showBool (isDistanceLess x a b p.m), showF64 v.1, showBool v.2,
           showBool (isInteriorDistanceLess x a b p.m), showF64 xm.1, showBool xm.2,
           showF64 (minUpdateDistanceMaxError p.m), "|"]
        let model : List String :=
          [showF64 md.1, showBool md.2, showF64 mdi.1, showBool mdi.2, r.getD 4 "",
           showF64 (minUpdateDistanceMaxError md.1), showF64 (minUpdateInteriorDistanceMaxError md.1)] ++ mPer ++
          showV3 (project x a b) ++ (res.drop (o+3))
        -- judge
        let outs : List F64 := [d, di, ang] ++ comps [pj, i0, i1, ih] ++ pms.flatMap fun p => [p.ur, p.vr, p.xr]
        let prop : Option String :=
          if d.isFinite && F64.gt d f4 then some ("chord-invalid" ++ (if ang.isNaN then " angle-nan" else "")) else
          if outs.any (fun v => v.isNaN) || !(d.isFinite && ang.isFinite && finV pj) then some "nonfinite" else
          let e := commonExp (comps [x, a, b, pj, i0, i1, iF, ih, ip])
          let X := toIV e x; let A := toIV e a; let B := toIV e b
          let (T, _interior) := trueMinDist2 X A B
          let D := qF d
          let Eb := errBound d T gE
          let cA := chord2 X A; let cB := chord2 X B
          let cMin := I.min cA cB
          let zeroEnd := clauseIf ((V3.feq x a || V3.feq x b) && !d.isZero) "zero-endpoint"
          -- KNOWN class D57: on the VERTEX branch the documented bound is `MaxPointError = 4.5 dblEpsilon d + 16 dblEpsilon^2`, whose
          -- derivation budgets 2 dblEpsilon for the normalisation of BOTH points together; two outputs of `Normalize` that are both too
          -- long by 2.8 * 2^-53 or more exceed it.  The bound with 6.5 in place of 4.5 is PROVED for the whole documented range of
          -- `Normalize` (`S2Proofs.C17.vertex_case_wide`), so: outside `Eb` but inside `Eb + 2 dblEpsilon max(d, true) + 2^-100` on the
          -- vertex branch = the known class (suffix `-maxpointerror`); anything beyond is reported as before.
          let EbW := Eb + qPow2 51 * Q.max D T.hi + qPow2 100
          let distErr := if withinI T D Eb then none
                         else if !oki && withinI T D EbW then some "dist-err-maxpointerror" else some "dist-err"
          let distEnd := if !(Q.lt (cMin.hi + Eb) D) then none
                         else if !oki && !(Q.lt (cMin.hi + EbW) D) then some "dist-endpoint-maxpointerror" else some "dist-endpoint"
          -- threshold forms: compare with the computed distance d
          -- (`thresh` : the disagreement is larger than the documented error bound;
          --  `thresh-within-bound` : literal disagreement, but |d − m| or |d − returned value| ≤ bound)
          let thrBad (p : PerM) : Bool :=
            let less := F64.lt d p.m
            p.idl != less || p.uok != less || (showF64 p.ur != showF64 (if less then d else p.m))
          let thrGross (p : PerM) : Bool :=
            thrBad p && p.m.isFinite && p.ur.isFinite &&
              (if p.uok != F64.lt d p.m then Q.lt Eb (Q.abs (D - qF p.m)) else Q.lt Eb (Q.abs (D - qF p.ur)))
          -- judged up to the documented error bound: a literal disagreement inside the bound is not a failure
          let thr := clauseIf (pms.any thrGross) "thresh"
          let intImp := clauseIf (pms.any fun p => (p.iidl && !p.idl) || (p.iidl != p.vok) || (p.idl != p.uok)) "interior-implies"
          -- max distance
          let dmax? := (pms.find? fun p => p.m.bits == negOneBits).map (·.xr)
          let maxCl : List (Option String) := match dmax? with
            | none => []
            | some dmax =>
              let TM := trueMaxDist2 X A B
              let Tm' : I := ⟨Q.ofNat 4 - TM.hi, Q.ofNat 4 - TM.lo⟩
              let Ebm := Q.max (errBound (f4 - dmax) Tm' fz) (qF (maxPointError f4))
              -- KNOWN class F10: x at 90° (chord² within 2^-45 of 2) from BOTH endpoints: UpdateMaxDistance skips the interior
              -- candidate because the larger endpoint chord rounds to ≤ 2 (`dist > RightChordAngle` is not conservative)
              let near2 (c : I) : Bool := Q.le (Q.ofNat 2 - qPow2 45) c.lo && Q.le c.hi (Q.ofNat 2 + qPow2 45)
              [clauseIf (!(withinI TM (qF dmax) (Ebm + Ebm)))
                 (if near2 cA && near2 cB then "maxdist-rightangle" else "maxdist-err"),
               clauseIf (pms.any fun p =>
                 let gr := F64.lt p.m dmax
                 p.xok != gr || showF64 p.xr != showF64 (if gr then dmax else p.m)) "thresh-max"]
          -- angle conversion of DistanceFromSegment: 4 sin²(ang/2) ≈ d
          let angCl : Option String :=
            if F64.lt ang fz || F64.gt ang ⟨0x400921FB54442D19⟩ then some "angle-conv" else  -- > nextafter(pi)
            let s := sinEncl (qF ang * ⟨1, 2⟩) 14
            let c2 : I := I.scale (Q.ofNat 4) (I.mulNN s s)
            clauseIf (!(withinI c2 D (D * qPow2 49 + qPow2 1000))) "angle-conv"
          -- projection
          let P := toIV e pj
          let N := A.cross B
          let projCl : List (Option String) :=
            if P.isZero then
              [some (if !N.isZero && !(Q.le (qPow2 7) (sin2Between X N)) then "project-nearpole" else "project-zero")] else
            let isEnd := V3.feq pj a || V3.feq pj b
            let q : Q := if N.isZero then Q.one else sin2Between X N   -- sin² of the angle between X and the pole N of the edge
            let wellCond := Q.le (qPow2 7) q            -- X at least ~5° away from the pole of the edge (or degenerate edge)
            let circ := clauseIf (!isEnd && !N.isZero && wellCond && nearPlane P N tolAngle == .no) "project-circle"
            let btw := clauseIf (!isEnd && !N.isZero && !(inArcClosed P A B) &&
                                  angleLe P A tolAngle == .no && angleLe P B tolAngle == .no) "project-between"
            let cXP := chord2 X P
            let pd := clauseIf (!(withinI cXP D (Eb + Eb + qPow2 100))) "project-dist"
            -- KNOWN class F7: x within ~5° of the pole of the edge (sin²∠(x, a×b) < 2^-7): every failure of a
            -- Project clause is reported under the single clause `project-nearpole`
            if wellCond then [circ, btw, pd]
            else [clauseIf ((firstSome [circ, btw, pd]).isSome) "project-nearpole"]
          -- interpolation
          let interpEnds := clauseIf (!(bitEq i0 a) || !(bitEq i1 b)) "interp-ends"
          let AB := A.add B
          let midCl : Option String :=
            if !finV ih then some "interp-mid-nonfinite" else
            if Q.le (Q.ofInt (inorm2 A) * qPow2 10) (Q.ofInt (inorm2 AB)) then
              clauseIf (angleLe (toIV e ih) AB tolAngle == .no) "interp-mid"
            else none
          let fracCl : Option String :=
            if V3.feq a b || frac.isNaN then none else
            if !finV iF then some "interp-frac-nonfinite" else
            if Q.le T.hi (qPow2 40) then
              let c := chord2 (toIV e iF) X
              clauseIf (Q.lt (Q.ofNat 2 * tolAngle * tolAngle + Q.ofNat 32 * T.hi) c.lo) "interp-frac"
            else none
          let nearPoleX : Bool := !N.isZero && !(Q.le (qPow2 7) (sin2Between X N))
          let fpCl : Option String :=
            if V3.feq a b || fp.isNaN || P.isZero then none else
            if nearPoleX then none else   -- depends on Project(x): covered by `project-nearpole`
            if !finV ip then some "interp-frac-proj-nonfinite" else
            clauseIf (angleLe (toIV e ip) P (tolAngle + tolAngle) == .no) "interp-frac-proj"
          let _ := oki; let _ := di
          firstSome ([zeroEnd, distErr, distEnd, thr, intImp] ++ maxCl ++ [angCl] ++ projCl ++
                     [interpEnds, midCl, fracCl, fpCl])
        verdictC model res prop
      | _, _, _, _, _ => "bad pedist-res2"
    | _, _, _, _, _, _, _, _, _, _, _ => "bad pedist-res"
  | _, _ => "bad pedist-args"

/-! ### C17 : edge pairs -/

def handleEedist (args res : List String) : String :=
  match parsePts? (args.take 12), parseFList? (args.getD 12 "") with
  | some [a0, a1, b0, b1], some ms =>
    let r := res.toArray
    let nm := ms.length
    if args.length != 13 || r.size != 2 + 5 * nm + 11 then "bad eedist-arity" else
    let o := 2 + 5 * nm
    let per? : Option (List (F64 × F64 × Bool × F64 × Bool)) := (List.range nm).mapM fun k => do
      let nr ← getF r (2 + 5*k); let nok ← getB r (3 + 5*k); let xr ← getF r (4 + 5*k); let xok ← getB r (5 + 5*k)
      pure (ms.getD k fz, nr, nok, xr, xok)
    match per?, getV r o, getV r (o+3), getF r (o+6), getF r (o+7), getF r (o+8), getF r (o+9), getF r (o+10) with
    | some per, some pa, some pb, some d0, some d1, some d2, some d3, some gE =>
      if !(finV a0 && finV a1 && finV b0 && finV b1) || ms.any (·.isNaN) then "bad eedist-nonfinite-input" else
      let cs := r.getD 0 ""; let csn := r.getD 1 ""
      -- model
      let mcs := match Contain.crossingSign Contain.floatGeo a0 a1 b0 b1 with | .cross => "0" | .maybe => "1" | .doNot => "2"
      let mcsn := match Contain.crossingSign Contain.floatGeo a0 a1 (b0.mul fNegOne) (b1.mul fNegOne) with
        | .cross => "0" | .maybe => "1" | .doNot => "2"
      let mPer : List String := per.flatMap fun (m, _, _, _, _) =>
        let u := updateEdgePairMinDistance a0 a1 b0 b1 m
        let v := updateEdgePairMaxDistance a0 a1 b0 b1 m
        [showF64 u.1, showBool u.2, showF64 v.1, showBool v.2, "|"]
      let mcp := edgePairClosestPoints a0 a1 b0 b1
      let md0 := (updateMinDistance a0 b0 b1 fz true).1
      let md1 := (updateMinDistance a1 b0 b1 fz true).1
      let md2 := (updateMinDistance b0 a0 a1 fz true).1
      let md3 := (updateMinDistance b1 a0 a1 fz true).1
      let mmin := F64.fmin (F64.fmin md0 md1) (F64.fmin md2 md3)
      let model : List String := [mcs, mcsn] ++ mPer ++ showV3 mcp.1 ++ showV3 mcp.2 ++
        [showF64 md0, showF64 md1, showF64 md2, showF64 md3, showF64 (minUpdateDistanceMaxError mmin)]
      let prop : Option String :=
        if !(finV pa && finV pb) || per.any (fun (_, nr, _, xr, _) => nr.isNaN || xr.isNaN) then some "nonfinite" else
        let e := commonExp (comps [a0, a1, b0, b1, pa, pb])
        let A0 := toIV e a0; let A1 := toIV e a1; let B0 := toIV e b0; let B1 := toIV e b1
        let PA := toIV e pa; let PB := toIV e pb
        let four : List I := [(trueMinDist2 A0 B0 B1).1, (trueMinDist2 A1 B0 B1).1, (trueMinDist2 B0 A0 A1).1, (trueMinDist2 B1 A0 A1).1]
        let tmin := four.foldl I.min (four.headD default)
        let crossing := (exactCrossing A0 A1 B0 B1).isSome
        let T : I := if crossing then I.pt Q.zero else tmin
        -- the computed distance: entry with threshold +Inf
        let dI? := (per.find? fun (m, _, _, _, _) => m.bits == infBits).map fun (_, nr, _, _, _) => nr
        let dX? := (per.find? fun (m, _, _, _, _) => m.bits == negOneBits).map fun (_, _, _, xr, _) => xr
        let minCl : List (Option String) := match dI? with
          | none => []
          | some D =>
            let Eb := errBound D T gE
            -- when the float CrossingSign and the exact crossing disagree (touching), allow either value
            let okT := withinI T (qF D) Eb || (cs == "0" && D.isZero) || withinI tmin (qF D) Eb
            [clauseIf (!okT) "ee-err",
             (let bad (neg : Bool) := per.any fun (m, nr, nok, _, _) =>
               (F64.lt m fz == neg) &&
               (let less := F64.lt D m && !(m.isZero)
                nok != less || showF64 nr != showF64 (if less then D else (if m.isZero then fz else m)))
              let gross := per.any fun (m, nr, nok, _, _) =>
                !(F64.lt m fz) && m.isFinite && nr.isFinite &&
                (let less := F64.lt D m && !(m.isZero)
                 (nok != less && Q.lt Eb (Q.abs (qF D - qF m))) ||
                 (nok == less && showF64 nr != showF64 (if less then D else (if m.isZero then fz else m)) &&
                   Q.lt Eb (Q.abs (qF D - qF nr))))
              -- negative thresholds (the NegativeChordAngle sentinel) are out of contract: not judged;
              -- disagreements inside the documented bound are not failures
              let _ := bad
              clauseIf gross "ee-thresh"),
             -- closest points realise the distance
             (if PA.isZero || PB.isZero then some "ee-closest-zero" else
              clauseIf (!(withinI (chord2 PA PB) (qF D) (Eb + Eb + qPow2 100))) "ee-closest-dist")]
        let maxCl : List (Option String) := match dX? with
          | none => []
          | some DX =>
            let nB0 := B0.neg; let nB1 := B1.neg
            let crossN := (exactCrossing A0 A1 nB0 nB1).isSome
            let fourM : List I := [trueMaxDist2 A0 B0 B1, trueMaxDist2 A1 B0 B1, trueMaxDist2 B0 A0 A1, trueMaxDist2 B1 A0 A1]
            let tmax := fourM.foldl I.max (fourM.headD default)
            let TM : I := if crossN then I.pt (Q.ofNat 4) else tmax
            let Tm' : I := ⟨Q.ofNat 4 - TM.hi, Q.ofNat 4 - TM.lo⟩
            let Ebm := Q.max (errBound (f4 - DX) Tm' fz) (qF (maxPointError f4))
            let okT := withinI TM (qF DX) (Ebm + Ebm) || (csn == "0" && F64.feq DX f4) || withinI tmax (qF DX) (Ebm + Ebm)
            [clauseIf (!okT) "ee-max-err"]
        -- closest points lie on their edges
        let onEdge (P U V : IV3) (pu pv pp : V3) : Bool :=
          V3.feq pp pu || V3.feq pp pv ||
          (let N := U.cross V
           !N.isZero && nearPlane P N tolAngle != .no &&
             (inArcClosed P U V || angleLe P U tolAngle != .no || angleLe P V tolAngle != .no))
        let onCl := if PA.isZero || PB.isZero then none else
          clauseIf (!(onEdge PA A0 A1 a0 a1 pa) || !(onEdge PB B0 B1 b0 b1 pb)) "ee-closest-onedge"
        -- KNOWN class F7 through EdgePairClosestPoints: some vertex within ~5° of the pole of the other edge
        let nearPoleVE (Xv U V : IV3) : Bool :=
          let N := U.cross V
          !N.isZero && !(Q.le (qPow2 7) (sin2Between Xv N))
        let anyNearPole := nearPoleVE A0 B0 B1 || nearPoleVE A1 B0 B1 || nearPoleVE B0 A0 A1 || nearPoleVE B1 A0 A1
        let crossCl : Option String :=
          if cs == "0" then
            match exactCrossingClosed A0 A1 B0 B1 with
            | some X => clauseIf (!(bitEq pa pb) || angleLe PA X isectEps == .no) "ee-closest-cross"
            | none => none
          else none
        let _ := d0; let _ := d1; let _ := d2; let _ := d3
        let all := minCl ++ maxCl ++ [onCl, crossCl]
        let isClosest (c : Option String) : Bool := match c with
          | some t => t.startsWith "ee-closest-dist" || t.startsWith "ee-closest-onedge" || t.startsWith "ee-closest-zero"
          | none => false
        -- KNOWN class D38 through EdgePairClosestPoints: BOTH edges within 2^-20 rad of antipodal and crossing: the crossing branch
        -- returns `Intersection`, which is the ANTIPODE of the true crossing there (same criterion as clause hemi-antipodal of C16)
        let nearAnti (U V : IV3) : Bool := decide (inorm2 (U.add V) * 2 ^ 40 < inorm2 U)
        let isCrossCl (c : Option String) : Bool := match c with
          | some t => t.startsWith "ee-closest-cross" || t.startsWith "ee-closest-onedge" || t.startsWith "ee-closest-dist"
          | none => false
        if cs == "0" && nearAnti A0 A1 && nearAnti B0 B1 && all.any isCrossCl then
          firstSome ((all.filter (fun c => !isCrossCl c)) ++ [some "ee-closest-antipodal-edges"])
        else if anyNearPole && all.any isClosest then
          firstSome ((all.filter (fun c => !isClosest c)) ++ [some "ee-closest-nearpole"])
        else firstSome all
      verdictC model res prop
    | _, _, _, _, _, _, _, _ => "bad eedist-res"
  | _, _ => "bad eedist-args"

/-! ### C17 : polylines (Interpolate / Uninterpolate / Project need libm: judged, not modelled) -/

def handlePlint (args res : List String) : String :=
  match args with
  | nTok :: rest =>
    match parseNat? nTok with
    | none => "bad plint-n"
    | some n =>
      if n == 0 || rest.length != 3 * n + 1 then "bad plint-arity" else
      match parsePts? (rest.take (3 * n)), parseFList? (rest.getD (3 * n) "") with
      | some vsL, some fs =>
        let vs := vsL.toArray
        let r := res.toArray
        let nf := fs.length
        if r.size != 2 + 12 * nf then "bad plint-res-arity" else
        match getF r 0, parseFList? (r.getD 1 "") with
        | some len, some segs =>
          if segs.length + 1 != n then "bad plint-segs" else
          if !(vsL.all finV) then "bad plint-nonfinite-input" else
          let qLen := qF len
          let segQ := segs.map qF
          let tolLen : Q := Q.ofNat (n + 4) * qPow2 48
          let judgeOne (k : Nat) : Option String :=
            let b := 2 + 12 * k
            match getV r b, parseNat? (r.getD (b+3) ""), getF r (b+4), getV r (b+5), parseNat? (r.getD (b+8) ""),
                  getF r (b+9), getF r (b+10) with
            | some q, some nx, some un, some pr, some rn, some aq, some _ar =>
              let f := fs.getD k fz
              if !(finV q && finV pr) || un.isNaN || aq.isNaN then some "pl-nonfinite" else
              if nx < 1 || nx > n || rn < 1 || rn > n then some "pl-index" else
              let e := commonExp (comps ([q, pr] ++ vsL))
              let Qv := toIV e q
              let v0 := vs.getD 0 zero3; let vl := vs.getD (n-1) zero3
              let ends : Option String :=
                if F64.le f fz then clauseIf (!(bitEq q v0) || nx != 1) "pl-ends"
                else if n == 1 then clauseIf (!(bitEq q v0)) "pl-ends"
                else none
              -- q lies on segment (nx-1, nx), or is the last vertex when nx = n
              let onseg : Option String :=
                if n == 1 then none else
                if nx == n then clauseIf (!(V3.feq q vl)) "pl-onseg-last" else
                let u := vs.getD (nx-1) zero3; let w := vs.getD nx zero3
                let U := toIV e u; let W := toIV e w
                let N := U.cross W
                if V3.feq q u || V3.feq q w then none
                else if N.isZero then some "pl-onseg-degenerate"
                else clauseIf (nearPlane Qv N tolAngle == .no ||
                               (!(inArcClosed Qv U W) && angleLe Qv U tolAngle == .no && angleLe Qv W tolAngle == .no)) "pl-onseg"
              -- arc length up to q (Go's own angles) ≈ f · len, and Uninterpolate ≈ f
              let pre : Q := (segQ.take (nx - 1)).foldl (· + ·) Q.zero
              let fq := qF f
              let fc : Q := if Q.le fq Q.zero then Q.zero else if Q.le Q.one fq then Q.one else fq
              let arc : Option String :=
                if n == 1 then none else
                clauseIf (Q.lt tolLen (Q.abs (pre + qF aq - fc * qLen))) "pl-arclen"
              let unint : Option String :=
                if n == 1 then clauseIf (!un.isZero) "pl-uninterp" else
                if len.isZero then none else
                clauseIf (Q.lt tolLen (Q.abs ((qF un - fc) * qLen))) "pl-uninterp"
              -- Project(q) returns q (up to tolerance)
              let prj := clauseIf (angleLe (toIV e pr) Qv (tolAngle + tolAngle) == .no) "pl-project"
              firstSome [ends, onseg, arc, unint, prj]
            | _, _, _, _, _, _, _ => some "pl-parse"
          let props := (List.range nf).map judgeOne
          -- monotonicity of the vertex index in the fraction
          let prop := firstSome props
          verdictC res res prop
        | _, _ => "bad plint-res"
      | _, _ => "bad plint-args"
  | _ => "bad plint-empty"

/-! ### constants -/

def handleConst (res : List String) : String :=
  verdict [showF64 intersectionErrorF, showF64 dblEpsilonF, showF64 dblErrorF, showF64 sqrt3F, showF64 tErr] res

/-- `plproj n v… q = rx ry rz rn dq dmin`: Polyline.Project of an arbitrary point.  Judged on Go's own distances (as the other
    polyline functions): no panic, the next-vertex index is in range, and the distance to the returned point does not exceed the
    minimum over the segments (both as squared chords) by more than 2^-46. -/
def handlePlproj (args res : List String) : String :=
  if res.any (fun t => t.startsWith "PANIC") then "propfail polyline-project-panic " ++ " ".intercalate res else
  match args.head?.bind String.toNat?, res with
  | some n, [_, _, _, rn, dq, dmin] =>
    match rn.toNat?, parseF64? dq, parseF64? dmin with
    | some rn, some dq, some dmin =>
      if rn < 1 || rn ≥ n + 1 then "propfail polyline-project-index-out-of-range"
      else if dq.isNaN || dmin.isNaN then "propfail polyline-project-nan"
      else if F64.gt dq (F64.add dmin ⟨0x3D10000000000000⟩) then "propfail polyline-project-not-closest"
      else "ok"
    | _, _, _ => "bad plproj-parse"
  | _, _ => "bad plproj-arity"

def handle (op : String) (args res : List String) : Option String :=
  if op == "plproj" then some (handlePlproj args res)
  else if op == "isect" then some (handleIsect args res)
  else if op == "pedist" then some (handlePedist args res)
  else if op == "eedist" then some (handleEedist args res)
  else if op == "plint" then some (handlePlint args res)
  else if op == "c17const" then some (handleConst res)
  else none

end Oracle.C17
