/-
  Oracle.C04Build — the real ShapeIndex construction against `S2.IndexBuild` (bit-exact model).

  c04build <n> <spec>*n = <raw>*n C <cell>*
      spec  : shape spec tokens of harness/c04.go (only read by the Go side)
      raw   : what the builder reads through the Shape interface, dumped by the harness:
              `dim:refContained:refPoint:edges`, edges = `-` or `v0;v1;v0;v1;…`, point = `x,y,z` (hex bits)
      cell  : `id:sid,cc,e.e.e|sid,cc,-|…`   (Go's index, iterator order, through VerifIndexCells)
      The model builds the index from the raw shapes and must reproduce Go's cells one by one
      (ids, shape ids, containsCenter flags, edge id lists, order).
      Additionally the structural facts the theorems of C06_Build state are re-checked on Go's own
      output (propfail): cell ids valid, strictly increasing, pairwise disjoint; edge ids < NumEdges;
      shape ids strictly increasing inside a cell.
  c04bclip <a> <b> <face> <padding> = <T|F> <aUV.x> <aUV.y> <bUV.x> <bUV.y>
      exported `s2.ClipToPaddedFace` against `IndexBuild.clipToPaddedFace` (uv only compared when T)
-/
import Oracle.Basic
import S2.IndexBuild
namespace Oracle.C04Build
open Oracle S2 S2.CellID S2.IndexBuild

def parsePt? (s : String) : Option V3 :=
  match s.splitOn "," with
  | [a, b, c] => parseV3? a b c
  | _ => none

def parseEdges? (s : String) : Option (Array (V3 × V3)) :=
  if s == "-" then some #[] else do
    let pts ← (s.splitOn ";").mapM parsePt?
    let rec pair : List V3 → Option (List (V3 × V3))
      | [] => some []
      | [_] => none
      | a :: b :: rest => (pair rest).map ((a, b) :: ·)
    (pair pts).map List.toArray

def parseRaw? (s : String) : Option Shape :=
  match s.splitOn ":" with
  | [d, c, p, es] => do
    pure ⟨← parseNat? d, ← parseEdges? es, ← parsePt? p, ← parseBool? c⟩
  | _ => none

def parseDots? (s : String) : Option (List Nat) :=
  if s == "-" then some [] else (s.splitOn ".").mapM parseNat?

def parseClipped? (s : String) : Option Clipped :=
  match s.splitOn "," with
  | [sid, cc, es] => do pure ⟨← parseNat? sid, ← parseBool? cc, ← parseDots? es⟩
  | _ => none

def parseCell? (s : String) : Option IndexCell :=
  match s.splitOn ":" with
  | [id, shapes] => do
    let ss ← if shapes == "~" then some [] else (shapes.splitOn "|").mapM parseClipped?
    pure ⟨← parseU64? id, ss⟩
  | _ => none

def showClipped (c : Clipped) : String :=
  s!"{c.shapeID},{showBool c.containsCenter},{showList toString c.edges |>.replace "," "."}"

def showCell (c : IndexCell) : String :=
  u64Hex c.id ++ ":" ++ (if c.shapes.isEmpty then "~" else "|".intercalate (c.shapes.map showClipped))

/-- first position where the two cell lists differ -/
def firstDiff : Nat → List IndexCell → List IndexCell → Option (Nat × String × String)
  | _, [], [] => none
  | k, m :: ms, g :: gs => if m == g then firstDiff (k + 1) ms gs else some (k, showCell m, showCell g)
  | k, m :: _, [] => some (k, showCell m, "END")
  | k, [], g :: _ => some (k, "END", showCell g)

def strictlyIncreasing : List Nat → Bool
  | a :: b :: rest => a < b && strictlyIncreasing (b :: rest)
  | _ => true

/-- structural facts on Go's own output -/
def propCheck (shapes : Array Shape) (cells : List IndexCell) : Option String :=
  let rec order : List IndexCell → Option String
    | a :: b :: rest =>
      if !(rangeMax a.id < rangeMin b.id) then some s!"cells-not-disjoint-increasing@{u64Hex b.id}"
      else order (b :: rest)
    | _ => none
  match cells.find? (fun c => !isValid c.id) with
  | some c => some s!"invalid-cell-id@{u64Hex c.id}"
  | none =>
    match order cells with
    | some e => some e
    | none =>
      match cells.find? (fun c => c.shapes.isEmpty) with
      | some c => some s!"empty-cell@{u64Hex c.id}"
      | none =>
        match cells.find? (fun c => !strictlyIncreasing (c.shapes.map (·.shapeID))) with
        | some c => some s!"shape-ids-not-increasing@{u64Hex c.id}"
        | none =>
          match cells.find? (fun c => c.shapes.any fun s =>
              s.shapeID ≥ shapes.size || s.edges.any (fun e => e ≥ (shapes[s.shapeID]!).edges.size)
                || !strictlyIncreasing s.edges) with
          | some c => some s!"edge-id-out-of-range-or-unsorted@{u64Hex c.id}"
          | none => none

def handleBuild (args res : List String) : String :=
  match args with
  | nTok :: _ =>
    match parseNat? nTok with
    | none => "bad c04build-n"
    | some n =>
      if res.length < n + 1 || res[n]? != some "C" then
        (if (res.head?.map (·.startsWith "PANIC")).getD false then "diff PANIC" else "bad c04build-shape")
      else
        match (res.take n).mapM parseRaw?, (res.drop (n + 1)).mapM parseCell? with
        | some raws, some goCells =>
          let shapes := raws.toArray
          let r := buildRes shapes
          let prop := propCheck shapes goCells
          if !r.ok then "diff fuel-exhausted"
          else
            match firstDiff 0 r.cells goCells with
            | none => (match prop with | some e => "propfail " ++ e | none => "ok")
            | some (k, m, g) =>
              let d := s!"cell#{k} model={m} impl={g} nModel={r.cells.length} nImpl={goCells.length}"
              (match prop with | some e => s!"propfail {e} {d}" | none => "diff " ++ d)
        | _, _ => "bad c04build-parse"
  | _ => "bad c04build-args"

def handleClip (args res : List String) : String :=
  match args with
  | [a, b, f, pad] =>
    match parsePt? a, parsePt? b, parseNat? f, parseF64? pad with
    | some a, some b, some f, some pad =>
      let model : List String := match clipToPaddedFace a b f pad with
        | some (x, y) => ["T", showF64 x.1, showF64 x.2, showF64 y.1, showF64 y.2]
        | none => ["F"]
      let impl := if res.head? == some "F" then ["F"] else res
      verdict model impl
    | _, _, _, _ => "bad c04bclip-parse"
  | _ => "bad c04bclip-args"

def showRect (r : CellM.Rect2) : String :=
  ",".intercalate [showF64 r.1.1, showF64 r.1.2, showF64 r.2.1, showF64 r.2.2]

def handleInterp (args res : List String) : String :=
  match args.mapM parseF64? with
  | some [x, a, b, a1, b1] =>
    let m := interpolateFloat64 x a b a1 b1
    let isNaNTok (t : String) := match parseF64? t with | some v => v.isNaN | none => false
    if m.isNaN && (res.head?.map isNaNTok).getD false then "ok" else verdict [showF64 m] res
  | _ => "bad c04binterp"

def handleMaxLevel (args res : List String) : String :=
  match args with
  | [a, b] =>
    match parsePt? a, parsePt? b with
    | some a, some b => verdict [toString (maxLevelForEdge a b)] res
    | _, _ => "bad c04bmaxlevel-parse"
  | _ => "bad c04bmaxlevel"

def handleFaceEdge (args res : List String) : String :=
  match args with
  | [a, b] =>
    match parsePt? a, parsePt? b with
    | some a, some b =>
      let fe : FaceEdge := { shapeID := 0, edgeID := 0, maxLevel := 0, hasInterior := false,
                             a := (CellM.fzero, CellM.fzero), b := (CellM.fzero, CellM.fzero), v0 := a, v1 := b }
      let m := (addFaceEdge fe).map fun x =>
        s!"{x.1}:" ++ ",".intercalate [showF64 x.2.a.1, showF64 x.2.a.2, showF64 x.2.b.1, showF64 x.2.b.2]
      verdict (if m.isEmpty then ["-"] else m) res
    | _, _ => "bad c04bfaceedge-parse"
  | _ => "bad c04bfaceedge"

def mkCE (l : List F64) : Option ClippedEdge :=
  match l with
  | [ax, ay, bx, by_, xlo, xhi, ylo, yhi] =>
    some { fe := { shapeID := 0, edgeID := 0, maxLevel := 0, hasInterior := false, a := (ax, ay), b := (bx, by_),
                   v0 := Crossing.zero3, v1 := Crossing.zero3 },
           bound := ((xlo, xhi), (ylo, yhi)) }
  | _ => none

def handleClipB (args res : List String) : String :=
  match (args.take 8).mapM parseF64?, args.drop 8 with
  | some fl, [axis, end_, val] =>
    match mkCE fl, parseNat? axis, parseNat? end_, parseF64? val with
    | some ce, some axis, some e, some v =>
      let r := if axis == 0 then clipUBound ce e v else clipVBound ce e v
      verdict [showRect r.bound] res
    | _, _, _, _ => "bad c04bclipb-parse"
  | _, _ => "bad c04bclipb"

def handleClipV (args res : List String) : String :=
  match args.mapM parseF64? with
  | some fl =>
    match mkCE (fl.take 8), fl.drop 8 with
    | some ce, [mlo, mhi] =>
      let (a, b) := clipVAxis ce (mlo, mhi)
      let sh (o : Option ClippedEdge) : String := match o with | some c => showRect c.bound | none => "-"
      verdict [sh a, sh b] res
    | _, _ => "bad c04bclipv-parse"
  | none => "bad c04bclipv"

def handle (op : String) (args res : List String) : Option String :=
  if op == "c04build" then some (handleBuild args res)
  else if op == "c04bclip" then some (handleClip args res)
  else if op == "c04bconst" then some (verdict [showF64 cellPadding] res)
  else if op == "c04binterp" then some (handleInterp args res)
  else if op == "c04bmaxlevel" then some (handleMaxLevel args res)
  else if op == "c04bfaceedge" then some (handleFaceEdge args res)
  else if op == "c04bclipb" then some (handleClipB args res)
  else if op == "c04bclipv" then some (handleClipV args res)
  else none

end Oracle.C04Build
