/-
  Oracle.C07Walk — op `c07walk A B`: the two-index walk of the loop relations run by the model
  (`S2.RelateWalk`) on the dumped indexes, for the eight ordered pairs of {A,¬A} x {B,¬B}.

    diff      the model walk's answer (Contains / Intersects / compareBoundary, and the raw result and
              relation state of hasCrossingRelation for the four relation objects) ≠ Go's
    propfail  Go's answer ≠ the exact relation (`S2.Relate`, brute force over all pairs of edges):
              clauses  walk-contains:<pair>  walk-intersects:<pair>  walk-boundary:<pair>;
              or an index hypothesis of the theorems of S2Proofs.Properties.C07_Walk fails on the
              dumped indexes:  hyp-cells:<loop> (`IdxOK`: sorted, disjoint, valid cells)  hyp-covered:<pair>
              (`PairsCovered` for the pairs of edges ENDING in a common vertex — the pairs whose wedge test
              the walk must reach: they are listed in two cells with intersecting ranges.  For properly
              crossing pairs the hypothesis is not evaluated separately: a missed crossing shows up as
              walk-contains / walk-intersects / walk-boundary);
              or a hypothesis of the theorems of S2Proofs.Properties.C07_WalkSound fails:  hyp-edges:<pair>
              (`EdgesOK`)  hyp-centre-contains:<pair> / hyp-centre-intersects:<pair> (`CenterSound`: a centre
              shortcut can fire on the two indexes but the exact relation does not have the value the walk then
              returns)  hyp-rects:<pair> (`RectsExact`: Go's rectangle booleans are exact shortcuts)

  Token formats: see harness/c07walk.go.
-/
import Oracle.Basic
import Oracle.C07
import S2.RelateWalk
import S2.RelateWalkHyps
namespace Oracle.C07Walk
open Oracle S2 S2.Exact S2.Relate S2.RelateWalk Oracle.C07

/-! ### parsing -/

def parseCell? (s : String) : Option ICell := do
  let cs := s.toList
  if cs.length < 17 then none else
  let id ← parseU64? (String.ofList (cs.take 16))
  let cc ← parseBool? (String.ofList [cs.getD 16 'x'])
  let rest := String.ofList (cs.drop 17)
  let edges ← if rest.isEmpty then some [] else (rest.splitOn ".").mapM parseNat?
  pure ⟨id, cc, edges⟩

def parseIndex? (s : String) : Option Index :=
  if s == "-" then some ⟨#[]⟩ else do
    let l ← (s.splitOn "|").mapM parseCell?
    pure ⟨l.toArray⟩

/-- the `gc` table: for every root position the list of (edge, cells found) -/
abbrev GC := Array (List (Nat × List Nat))

def parseGC? (s : String) (size : Nat) : Option GC :=
  if s == "-" then some (Array.replicate size []) else do
    let ents ← (s.splitOn ";").mapM fun e =>
      match e.splitOn ":" with
      | [aj, pa, cs] => do
        let aj ← parseNat? aj
        let pa ← parseNat? pa
        let cs ← if cs.isEmpty then some [] else (cs.splitOn ".").mapM parseNat?
        pure (aj, pa, cs)
      | _ => none
    pure (ents.foldl (fun (t : GC) (aj, pa, cs) => if pa < t.size then t.modify pa (· ++ [(aj, cs)]) else t)
      (Array.replicate size []))

def GC.get (t : GC) (aj pa : Nat) : List Nat :=
  match (t.getD pa []).find? (fun e => e.1 == aj) with
  | some e => e.2
  | none => []

structure PairTok where
  rects : List Bool
  ans : String
  raw : String
  gc : String

def parsePair? (s : String) : Option PairTok :=
  match s.splitOn "/" with
  | [r, a, w, g] => do
    let rb ← parseBools? r
    if rb.length == 3 then pure ⟨rb, a, w, g⟩ else none
  | _ => none

/-! ### index hypotheses (the decidable hypotheses of the theorems, evaluated on the dump) -/

/-- valid cell id, sorted, pairwise disjoint: adjacent cells suffice for a sorted list -/
def cellsOK (I : Index) : Bool :=
  let ids := I.cells.toList.map (·.id)
  ids.all (fun c => CellID.isValid c) &&
  (ids.zip (ids.drop 1)).all fun (a, b) => decide (CellID.rangeMax a < CellID.rangeMin b)

/-- ranges of cell `pa` of `IA` and cell `pb` of `IB` intersect -/
def rangesMeet (IA IB : Index) (pa pb : Nat) : Bool :=
  decide (IA.rangeMinAt pa ≤ IB.rangeMaxAt pb) && decide (IB.rangeMinAt pb ≤ IA.rangeMaxAt pa)

/-- positions of the cells listing an edge -/
def cellsOf (I : Index) (e : Nat) : List Nat :=
  (List.range I.size).filter fun p => (I.edgesAt p).contains e

/-- the pair of edges (i of A, j of B) is listed in two cells with intersecting ranges -/
def pairCovered (IA IB : Index) (i j : Nat) : Bool :=
  (cellsOf IA i).any fun pa => (cellsOf IB j).any fun pb => rangesMeet IA IB pa pb

/-! ### one ordered pair -/

def showRaw (o : Option (Bool × RelState)) : String :=
  match o with
  | none => "FUEL"
  | some (c, s) => bstr [c, s.foundSharedVertex, s.containsEdge, s.excludesEdge]

def showOB (o : Option Bool) : String := match o with | some b => showBool b | none => "FUEL"
def showOI (o : Option Int) : String := match o with | some b => toString b | none => "FUEL"

structure Side where
  L : Oracle.C07.L
  I : Index

/-- model tokens and property failures of the ordered pair (X, Y) -/
def evalPair (G : Geo IV3) (tag : String) (X Y : Side) (s : Scan) (pXY pYX : PairTok) : Option (String × List String) := do
  let gcXY ← parseGC? pXY.gc X.I.size
  let gcYX ← parseGC? pYX.gc Y.I.size
  let R : Rects := { aSubContainsB := pXY.rects.getD 0 false, bSubContainsA := pYX.rects.getD 0 false,
                     boundsIntersect := pXY.rects.getD 1 false, unionFull := pXY.rects.getD 2 false }
  let gab := fun aj pa => gcXY.get aj pa
  let gba := fun aj pa => gcYX.get aj pa
  let special := X.L.isEmptyOrFull || Y.L.isEmptyOrFull
  let anyEmpty := X.L.isEmpty || Y.L.isEmpty
  -- the four walks (one per relation object); when a loop is empty / full Go never walks
  let raws : List (Option (Bool × RelState)) :=
    if special then [some (false, {}), some (false, {}), some (false, {}), some (false, {})]
    else [RelKind.contains, .intersects, .compareBoundary false, .compareBoundary true].map fun k =>
      RelateWalk.hasCrossingRelation G k X.L Y.L X.I Y.I gab gba
  let rawAt (i : Nat) : Option (Bool × RelState) := raws.getD i none
  -- the full loop has an index (six face cells): Intersects / compareBoundary do walk it
  let wI := if special then RelateWalk.hasCrossingRelation G .intersects X.L Y.L X.I Y.I gab gba else rawAt 1
  let mc := RelateWalk.containsFrom G R X.L Y.L (rawAt 0)
  let mi := RelateWalk.intersectsFrom G R X.L Y.L wI
  -- standalone loops have depth 0: `B.IsHole()` is false
  let mb := if anyEmpty then "x" else showOI (RelateWalk.compareBoundaryFrom G R X.L Y.L (rawAt (if Y.L.isHole then 3 else 2)))
  let raw := if special then "x" else ".".intercalate (raws.map showRaw)
  let model := bstr pXY.rects ++ "/" ++ showOB mc ++ "," ++ showOB mi ++ "," ++ mb ++ "/" ++ raw ++ "/" ++ pXY.gc
  -- the exact relation, judged on Go's answers
  let ec := showBool (containsWith G s X.L Y.L)
  let ei := showBool (intersectsWith G s X.L Y.L)
  let eb := if anyEmpty then "x" else toString (compareBoundaryWith G s X.L Y.L)
  let fails := match pXY.ans.splitOn "," with
    | [gc, gi, gb] =>
      (if gc != ec then ["walk-contains:" ++ tag] else []) ++ (if gi != ei then ["walk-intersects:" ++ tag] else []) ++
      (if gb != eb then ["walk-boundary:" ++ tag] else [])
    | _ => ["bad-answers:" ++ tag]
  -- hypothesis `PairsCovered`: every properly crossing pair and every pair of edges ending in a common vertex
  let covered := special ||
    (s.shared.all fun (i, j) =>
      -- shared vertex A[i] = B[j]: the edges ENDING there are i-1 and j-1
      pairCovered X.I Y.I ((i + X.L.numEdges - 1) % X.L.numEdges) ((j + Y.L.numEdges - 1) % Y.L.numEdges))
  let fails := fails ++ (if covered then [] else ["hyp-covered:" ++ tag])
  -- the further hypotheses of the theorems of S2Proofs.Properties.C07_WalkSound, evaluated on the dump
  -- (`edgesOKB_iff`, `centerFiresB_iff`, `rectsExactB_iff` tie these Bool forms to the hypotheses):
  -- `EdgesOK` both loops
  let edgesOK := edgesOKB X.L.numEdges X.I && edgesOKB Y.L.numEdges Y.I
  let fails := fails ++ (if edgesOK then [] else ["hyp-edges:" ++ tag])
  -- `CenterSound` (the one unproved, Jordan-type hypothesis) where the theorems use it: `Contains` walks
  -- only past its rectangle test and the empty / full cases, `Intersects` only past its rectangle test
  let centreC := special || !R.aSubContainsB || !centerFiresB .contains X.I Y.I || !containsWith G s X.L Y.L
  let centreI := !R.boundsIntersect || !centerFiresB .intersects X.I Y.I || intersectsWith G s X.L Y.L
  let fails := fails ++ (if centreC then [] else ["hyp-centre-contains:" ++ tag]) ++
    (if centreI then [] else ["hyp-centre-intersects:" ++ tag])
  -- `RectsExact`: Go's rectangle booleans are exact shortcuts
  let fails := fails ++ (if rectsExactB G s R X.L Y.L then [] else ["hyp-rects:" ++ tag])
  pure (model, fails)

def handleWalk (a b : String) (res : List String) : Option String := do
  let ta ← parseLoop? a
  let tb ← parseLoop? b
  let va := ta.verts
  let vb := tb.verts
  let (G, e) := mkGeo [va, vb]
  let A := mkLoop G e va
  let B := mkLoop G e vb
  let nA := A.invert
  let nB := B.invert
  let n := A.vs.size
  let m := B.vs.size
  let s := scanFast G A B
  let sNA := s.revA n
  let sNB := s.revB m
  let sNN := sNA.revB m
  match res with
  | [ia, ina, ib, inb, p1, p2, p3, p4, p5, p6, p7, p8] =>
    match parseIndex? ia, parseIndex? ina, parseIndex? ib, parseIndex? inb,
          [p1, p2, p3, p4, p5, p6, p7, p8].mapM parsePair? with
    | some IA, some INA, some IB, some INB, some [q1, q2, q3, q4, q5, q6, q7, q8] =>
      let sa : Side := ⟨A, IA⟩
      let sna : Side := ⟨nA, INA⟩
      let sb : Side := ⟨B, IB⟩
      let snb : Side := ⟨nB, INB⟩
      let rs := [evalPair G "AB" sa sb s q1 q2, evalPair G "BA" sb sa s.swap q2 q1,
                 evalPair G "aB" sna sb sNA q3 q4, evalPair G "Ba" sb sna sNA.swap q4 q3,
                 evalPair G "Ab" sa snb sNB q5 q6, evalPair G "bA" snb sa sNB.swap q6 q5,
                 evalPair G "ab" sna snb sNN q7 q8, evalPair G "ba" snb sna sNN.swap q8 q7]
      match rs.mapM id with
      | none => pure "bad walk-gc"
      | some out =>
        let model := [ia, ina, ib, inb] ++ out.map (·.1)
        let hyp := (if cellsOK IA then [] else ["hyp-cells:A"]) ++ (if cellsOK INA then [] else ["hyp-cells:a"]) ++
                   (if cellsOK IB then [] else ["hyp-cells:B"]) ++ (if cellsOK INB then [] else ["hyp-cells:b"])
        let fails := out.flatMap (·.2) ++ hyp
        pure (verdictP model res (if fails.isEmpty then none else some (",".intercalate fails)))
    | _, _, _, _, _ => pure "bad walk-fields"
  | _ => pure "bad walk-arity"

def handle (op : String) (args res : List String) : Option String :=
  match op, args with
  | "c07walk", [a, b] => handleWalk a b res
  | _, _ => none

end Oracle.C07Walk
