/-
  Oracle.C02 — correspondence + property judge for the orientation and distance predicates.

  For every op the harness prints the result of each internal stage of the implementation.
  The oracle
    * recomputes every stage with the model (`S2.Pred`, float stages bit-exact) → `diff` on mismatch;
    * judges the implementation's own outputs in exact arithmetic → `propfail <clause>`:
        - every float stage:   result ≠ 0  ⇒  result = exact sign,
        - exact stage = sign of the exact quantity,
        - public result = exact sign, or (degenerate) the sign of the symbolically perturbed
          determinant, computed here INDEPENDENTLY of the model's 13-case cascade by expanding the
          perturbed determinant into all 48 monomials and taking the lowest-order non-zero one
          (`sosRef`); for 4- and 5-tuples with GLOBAL rank-based exponents (one perturbation per point),
        - rotation invariance / swap negation / antisymmetry / zero ⇔ equal points,
        - Grassmann–Plücker (chirotope) relations on 5-tuples.
-/
import Oracle.Basic
import S2.Exact
import S2.Pred
namespace Oracle.C02
open Oracle S2 S2.Exact S2.Pred

def parsePts? : List String → Option (List V3)
  | [] => some []
  | a :: b :: c :: rest => do
    let v ← parseV3? a b c
    let r ← parsePts? rest
    pure (v :: r)
  | _ => none

def allFinite (l : List V3) : Bool := l.all finite3

def showI (i : Int) : String := toString i

/-! ### independent simulation-of-simplicity reference -/

def comp (v : IV3) (j : Nat) : Int := if j == 0 then v.x else if j == 1 then v.y else v.z

def perms3 : List (Nat × Nat × Nat × Int) :=
  [(0,1,2,1), (1,2,0,1), (2,0,1,1), (0,2,1,-1), (2,1,0,-1), (1,0,2,-1)]

/-- add a monomial to an exponent-sorted association list -/
def addTerm : List (Nat × Int) → Nat → Int → List (Nat × Int)
  | [], e, c => [(e, c)]
  | (e', c') :: rest, e, c =>
    if e == e' then (e', c' + c) :: rest
    else if e < e' then (e, c) :: (e', c') :: rest
    else (e', c') :: addTerm rest e c

/-- all monomials of det(a + da, b + db, c + dc), where the perturbation of coordinate `j` of row `i`
    is ε^(ex i j); result sorted by exponent with equal exponents merged -/
def sosTerms (a b c : IV3) (ex : Nat → Nat → Nat) : List (Nat × Int) := Id.run do
  let mut acc : List (Nat × Int) := []
  for (p0, p1, p2, s) in perms3 do
    for mask in [0:8] do
      let f (i : Nat) (row : IV3) (j : Nat) : Int × Nat :=
        if (mask >>> i) % 2 == 1 then (1, ex i j) else (comp row j, 0)
      let (c0, e0) := f 0 a p0
      let (c1, e1) := f 1 b p1
      let (c2, e2) := f 2 c p2
      acc := addTerm acc (e0 + e1 + e2) (s * c0 * c1 * c2)
  return acc

/-- sign of the lowest-order non-zero coefficient -/
def sosRef (a b c : IV3) (ex : Nat → Nat → Nat) : Int :=
  match (sosTerms a b c ex).find? (fun t => t.2 != 0) with
  | some t => sgn t.2
  | none => 0

/-- exponents used for a sorted triple a < b < c: da.Z,da.Y,da.X,db.Z,… = ε^1,ε^2,ε^4,ε^8,… -/
def localEx (i j : Nat) : Nat := 2 ^ (3 * i + (2 - j))

/-- sort three (rank, point) pairs by rank, tracking the permutation sign -/
def sortByRank (a b c : Nat × IV3) : (Nat × IV3) × (Nat × IV3) × (Nat × IV3) × Int :=
  sort3 (fun u v => decide (u.1 > v.1)) a b c

/-- reference decision for the triple with GLOBAL ranks (smaller point = smaller rank = larger
    perturbation ε^(2^(3·rank + k))); 0 when two points coincide -/
def globalDecision (a b c : Nat × IV3) : Int :=
  if a.1 == b.1 || b.1 == c.1 || a.1 == c.1 then 0 else
  let (pa, pb, pc, s) := sortByRank a b c
  let rk : Nat → Nat := fun i => if i == 0 then pa.1 else if i == 1 then pb.1 else pc.1
  s * sosRef pa.2 pb.2 pc.2 (fun i j => 2 ^ (3 * rk i + (2 - j)))

/-- rank of every point = number of distinct smaller points (lexicographic exact order) -/
def ranks (ps : List IV3) : List Nat :=
  ps.map fun p => ((ps.filter fun q => IV3.cmp q p == -1).eraseDups).length

/-- reference decision of one triple by itself (ranks 0,1,2 after sorting) -/
def refDecision (a b c : IV3) : Int :=
  match ranks [a, b, c] with
  | [ra, rb, rc] => globalDecision (ra, a) (rb, b) (rc, c)
  | _ => 0

/-! ### helpers -/

def signStageName : Nat → String
  | 0 => "tri" | 1 => "eq" | 2 => "stab" | 3 => "exact" | _ => "sym"
def distStageName : Nat → String
  | 0 => "cos" | 1 => "eq" | 2 => "sin2" | 3 => "exact" | _ => "sym"

def firstSome (l : List (Bool × String)) : Option String :=
  (l.find? (·.1)).map (·.2)

/-- i-th, j-th, k-th (arbitrary order) entry of a chirotope given on sorted triples -/
def chi (n : Nat) (tbl : List (Nat × Nat × Nat × Int)) (i j k : Nat) : Int :=
  if i == j || j == k || i == k then 0 else
  let (a, b, c, s) := sort3 (fun (u v : Nat) => decide (u > v)) i j k
  let _ := n
  match tbl.find? (fun t => t.1 == a && t.2.1 == b && t.2.2.1 == c) with
  | some t => s * t.2.2.2
  | none => 0

def triplesOf (n : Nat) : List (Nat × Nat × Nat) := Id.run do
  let mut r : List (Nat × Nat × Nat) := []
  for i in [0:n] do
    for j in [i+1:n] do
      for k in [j+1:n] do
        r := r ++ [(i, j, k)]
  return r

/-- three-term Grassmann–Plücker relations of a rank-3 chirotope on n points: for every s and
    x1<x2<x3<x4 the three products are all zero or contain both signs -/
def gpOK (n : Nat) (tbl : List (Nat × Nat × Nat × Int)) : Bool := Id.run do
  let X := chi n tbl
  let mut ok := true
  for s in [0:n] do
    let others := (List.range n).filter (· != s)
    match others with
    | [x1, x2, x3, x4] =>
      let p1 := X s x1 x2 * X s x3 x4
      let p2 := -(X s x1 x3 * X s x2 x4)
      let p3 := X s x1 x4 * X s x2 x3
      let l := [p1, p2, p3]
      let allZero := l.all (· == 0)
      let hasPos := l.any (· > 0)
      let hasNeg := l.any (· < 0)
      if !(allZero || (hasPos && hasNeg)) then ok := false
    | _ => pure ()
  return ok

/-! ### handler -/

def handle (op : String) (args res : List String) : Option String :=
  match op with
  | "c02const" =>
    some (verdict (allConstants.map showF64) res)
  | "c02sign" => do
    let ps ← parsePts? args
    match ps with
    | [a, b, c] =>
      if !allFinite ps then some "bad nonfinite" else
      let (rob, st) := robustSignS a b c
      let model := [showI (triageSign a b c), showI (stableSign a b c), showI (exactSign a b c false),
        showI (exactSign a b c true), showI (expensiveSign a b c), showI rob,
        showBool (sign a b c), showBool (sign c b a),
        showI (robustSign b c a), showI (robustSign c a b),
        showI (robustSign b a c), showI (robustSign a c b), showI (robustSign c b a),
        "st:" ++ signStageName st]
      let D := detSign a b c
      let E := exactDecision a b c
      let eq := V3.feq a b || V3.feq b c || V3.feq c a
      let R := refDecision (ofV3 a) (ofV3 b) (ofV3 c)
      let Rref := if D != 0 then D else R
      let prop : Option String :=
        match res with
        | [tri, stab, exU, _exP, exp, robS, sABC, sCBA, r1, r2, r3, r4, r5, _] =>
          (do
            let tri ← parseInt? tri; let stab ← parseInt? stab; let exU ← parseInt? exU
            let exp ← parseInt? exp; let robI ← parseInt? robS
            let r1 ← parseInt? r1; let r2 ← parseInt? r2; let r3 ← parseInt? r3
            let r4 ← parseInt? r4; let r5 ← parseInt? r5
            pure (firstSome [
              (E != Rref, "model-symbolic-cascade-vs-perturbed-determinant-reference"),
              (tri != 0 && tri != D, "triageSign-nonzero-but-not-exact-sign"),
              (stab != 0 && stab != D, "stableSign-nonzero-but-not-exact-sign"),
              (exU != D, "exactSign-not-sign-of-exact-determinant"),
              (exp != Rref, "expensiveSign-result"),
              (D != 0 && robI != D, "RobustSign-not-sign-of-nonzero-determinant"),
              (robI == 0 && !eq, "RobustSign-zero-on-distinct-points"),
              (robI != 0 && eq, "RobustSign-nonzero-on-identical-points"),
              (robI != Rref, "RobustSign-not-the-fixed-perturbation"),
              (r1 != robI || r2 != robI, "RobustSign-rotation-invariance"),
              (r3 != -robI || r4 != -robI || r5 != -robI, "RobustSign-swap-negation"),
              (sABC == "T" && sCBA == "T", "Sign-abc-and-cba-both-true")])).getD (some "unparseable")
        | _ => some "impl-output-arity"
      some (verdictP model res prop)
    | _ => none
  | "c02exsign" => do
    let ps ← parsePts? args
    match ps with
    | [a, b, c] =>
      if !allFinite ps then some "bad nonfinite" else
      let model := [showI (exactSign a b c false), showI (exactSign a b c true)]
      let D := detSign a b c
      let ia := ofV3 a; let ib := ofV3 b; let ic := ofV3 c
      -- exactSign(perturb) on coinciding points is not used by the library; judged only for distinct points
      let distinct := ia != ib && ib != ic && ia != ic
      let R := if D != 0 then D else refDecision ia ib ic
      let prop : Option String := match res with
        | [u, p] => firstSome [
            (u != showI D, "exactSign-not-sign-of-exact-determinant"),
            (distinct && p != showI R, "exactSign-perturbed-not-the-fixed-perturbation")]
        | _ => some "impl-output-arity"
      some (verdictP model res prop)
    | _ => none
  | "c02cmpd" => do
    let ps ← parsePts? args
    match ps with
    | [x, a, b] =>
      if !allFinite ps then some "bad nonfinite" else
      let (pub, st) := compareDistancesS x a b
      let T := exactCompareDistances (ofV3 x) (ofV3 a) (ofV3 b)
      let model := [showI (triageCompareCosDistances x a b), showI (triageCompareSin2Distances x a b),
        showI (sin2StageDistances x a b), showI T, showI (symbolicCompareDistances x a b),
        showI pub, showI (compareDistances x b a), "st:" ++ distStageName st]
      let E := exactDistancesDecision x a b
      let prop : Option String := match res with
        | [tc, _raw, s2u, ex, _sym, pb, pbs, _] =>
          (do
            let tc ← parseInt? tc; let s2u ← parseInt? s2u; let ex ← parseInt? ex
            let pb ← parseInt? pb; let pbs ← parseInt? pbs
            pure (firstSome [
              (tc != 0 && tc != T, "cos-triage-nonzero-but-not-exact-comparison"),
              -- the sin² test is only meaningful where the code consults it: after an undecided cos test
              (tc == 0 && s2u != 0 && s2u != T, "sin2-triage-nonzero-but-not-exact-comparison"),
              (ex != T, "exactCompareDistances-not-exact-comparison"),
              (T != 0 && pb != T, "CompareDistances-not-exact-comparison"),
              (pb != E, "CompareDistances-symbolic-result"),
              (pb + pbs != 0, "CompareDistances-antisymmetry"),
              (pb == 0 && !V3.feq a b, "CompareDistances-zero-on-distinct-points")])).getD (some "unparseable")
        | _ => some "impl-output-arity"
      some (verdictP model res prop)
    | _ => none
  | "c02excmpd" => do
    let ps ← parsePts? args
    match ps with
    | [x, a, b] =>
      if !allFinite ps then some "bad nonfinite" else
      let T := exactCompareDistances (ofV3 x) (ofV3 a) (ofV3 b)
      let model := [showI T, showI (symbolicCompareDistances x a b)]
      let prop : Option String := match res with
        | [ex, sym] => firstSome [
            (ex != showI T, "exactCompareDistances-not-exact-comparison"),
            (sym != showI (symbolicCompareDistancesI (ofV3 a) (ofV3 b)), "symbolicCompareDistances-order")]
        | _ => some "impl-output-arity"
      some (verdictP model res prop)
    | _ => none
  | "c02cmpr" => do
    match args with
    | [x0, x1, x2, y0, y1, y2, r] =>
      let x ← parseV3? x0 x1 x2; let y ← parseV3? y0 y1 y2; let r ← parseF64? r
      if !allFinite [x, y] || r.isNaN then some "bad nonfinite" else
      let (pub, st) := compareDistanceS x y r
      let s2u := if F64.lt r ca45Degrees then triageCompareSin2Distance x y r else 0
      let T := exactCompareDistance x y r
      let exTok := if r.isFinite then showI T else "na"
      let model := [showI (triageCompareCosDistance x y r), showI s2u, exTok, showI pub, "st:" ++ distStageName st]
      -- expected answer: exact comparison; an infinite limit exceeds every distance
      let E : Int := if r.isFinite then T else (if r.signBit then 1 else -1)
      let prop : Option String := match res with
        | [tc, s2, ex, pb, _] =>
          (do
            let tc ← parseInt? tc; let s2 ← parseInt? s2; let pb ← parseInt? pb
            pure (firstSome [
              (tc != 0 && tc != E, "cos-triage-nonzero-but-not-exact-comparison"),
              (tc == 0 && s2 != 0 && s2 != E, "sin2-triage-nonzero-but-not-exact-comparison"),
              (r.isFinite && ex != showI T, "exactCompareDistance-not-exact-comparison"),
              (pb != E, "CompareDistance-not-exact-comparison")])).getD (some "unparseable")
        | _ => some "impl-output-arity"
      some (verdictP model res prop)
    | _ => none
  | "c02excmpr" => do
    match args with
    | [x0, x1, x2, y0, y1, y2, r] =>
      let x ← parseV3? x0 x1 x2; let y ← parseV3? y0 y1 y2; let r ← parseF64? r
      if !allFinite [x, y] || !r.isFinite then some "bad nonfinite" else
      let T := exactCompareDistance x y r
      some (verdictP [showI T] res (if res != [showI T] then some "exactCompareDistance-not-exact-comparison" else none))
    | _ => none
  | "c02err" => do
    let ps ← parsePts? args
    match ps with
    | [x, y] =>
      if !allFinite ps then some "bad nonfinite" else
      let (c, ce) := cosDistance x y
      let (n, ne) := sin2Distance x y
      some (verdict [showF64 c, showF64 ce, showF64 n, showF64 ne] res)
    | _ => none
  | "c02sdp" => do
    let ps ← parsePts? args
    match ps with
    | [a, b] =>
      if !allFinite ps then some "bad nonfinite" else
      let (pub, st) := signDotProdS a b
      let T := dotSign a b
      let model := [showI (triageSignDotProd a b), showI T, showI pub, "st:" ++ (if st == 0 then "tri" else "exact")]
      let prop : Option String := match res with
        | [tri, ex, pb, _] =>
          (do
            let tri ← parseInt? tri
            pure (firstSome [
              (tri != 0 && tri != T, "triageSignDotProd-nonzero-but-not-exact-sign"),
              (ex != showI T, "exact-dot-product-sign"),
              (pb != showI T, "SignDotProd-not-exact-sign")])).getD (some "unparseable")
        | _ => some "impl-output-arity"
      some (verdictP model res prop)
    | _ => none
  | "c02occw" => do
    let ps ← parsePts? args
    match ps with
    | [a, b, c, o] =>
      if !allFinite ps then some "bad nonfinite" else
      let model := [showBool (orderedCCW a b c o)]
      let want := showBool (orderedCCWWith exactDecision a b c o)
      some (verdictP model res (if res != [want] then some "OrderedCCW-vs-exact-orientations" else none))
    | _ => none
  | "c02chiro" => do
    let ps ← parsePts? args
    let n := ps.length
    if n < 3 || n > 6 then none else
    if !allFinite ps then some "bad nonfinite" else
    let tr := triplesOf n
    let arr := ps.toArray
    let model := [showList showI (tr.map fun (t : Nat × Nat × Nat) => robustSign arr[t.1]! arr[t.2.1]! arr[t.2.2]!)]
    let ips := ps.map ofV3
    let rk := (ranks ips).toArray
    let iarr := ips.toArray
    let want : List Int := tr.map fun (t : Nat × Nat × Nat) =>
      let i := t.1; let j := t.2.1; let k := t.2.2
      let D := sgn (det3 iarr[i]! iarr[j]! iarr[k]!)
      if D != 0 then D else globalDecision (rk[i]!, iarr[i]!) (rk[j]!, iarr[j]!) (rk[k]!, iarr[k]!)
    let prop : Option String := match res with
      | [l] =>
        (do
          let got ← parseList? parseInt? l
          if got.length != tr.length then pure (some "impl-output-arity") else
          let tbl : List (Nat × Nat × Nat × Int) := (tr.zip got).map fun (t : (Nat × Nat × Nat) × Int) => (t.1.1, t.1.2.1, t.1.2.2, t.2)
          pure (firstSome [
            (got != want, "triples-not-one-global-perturbation"),
            (n == 5 && !gpOK n tbl, "grassmann-plucker-violated")])).getD (some "unparseable")
      | _ => some "impl-output-arity"
    some (verdictP model res prop)
  | _ => none

end Oracle.C02
