/-
  Oracle.C15 — correspondence + property predicate for C15 (decoding arbitrary bytes is total).
  Line:   dec <type> <hexbytes|~> = error | ok qok | ok QPANIC:<q>:<msg> | PANIC:<msg> | FATAL:<msg> | TIMEOUT
  The model is the regenerated decoder IR (S2.Generated.DecoderIR) run by the total interpreter
  S2.DecoderIR.run on the same bytes.
  Property predicate (on the implementation's own outcome): outcome ∈ {error, ok-and-queries-ok};
  additionally an `ok` on an input for which the decoder's own `d.err` was set (model: lostError) is a
  property failure ("declared counts beyond the limits are rejected", "returns an error or a value").
-/
import Oracle.Basic
import S2.DecoderIR
import S2.Generated.DecoderIR
namespace Oracle.C15
open Oracle S2.DecoderIR

def parseBytes? (s : String) : Option (List UInt8) :=
  if s == "~" then some [] else
  let rec go : List Char → List UInt8 → Option (List UInt8)
    | [], acc => some acc.reverse
    | [_], _ => none
    | a :: b :: r, acc =>
      match hexVal? a, hexVal? b with
      | some x, some y => go r (UInt8.ofNat (16 * x + y) :: acc)
      | _, _ => none
  go s.toList []

/-- memory the model process may use before `allocTooLarge` (the harness child is capped well below). -/
def cfg : Cfg := { memCap := 2 ^ 35 }

def modelClass : Result → String
  | .error _ => "error"
  | .value _ _ => "ok"
  | .panic _ => "PANIC"
  | .allocTooLarge => "FATAL"
  | .hang => "TIMEOUT"

/-- implementation outcome: (class, kind of failure, raw token).  kind ∈ {"", "decode-panic", "query-panic",
    "decode-fatal", "decode-timeout"} -/
def implClass (res : List String) : Option (String × String × String) :=
  match res with
  | ["error"] => some ("error", "", "")
  | ["ok", "qok"] => some ("ok", "", "")
  | ["ok", q] => if q.startsWith "QPANIC:" then some ("ok", "query-panic", q) else none
  | [t] =>
    if t.startsWith "PANIC:" then some ("PANIC", "decode-panic", t)
    else if t.startsWith "FATAL:" then some ("FATAL", "decode-fatal", t)
    else if t == "TIMEOUT" then some ("TIMEOUT", "decode-timeout", "")
    else none
  | _ => none

/-- Clauses printed after `propfail`:
    `panic-nonfinite-vertex <token>`  a decode-panic or query-panic on an input in which the decoder read a NaN / ±Inf
                                      vertex coordinate (known finding D21: non-finite vertices are accepted);
    `decode-panic <token>`, `query-panic <token>`, `decode-fatal <token>`, `decode-timeout`   every other abnormal outcome;
    `error-swallowed decoder-error-set-but-nil-returned`   nil returned although the decoder's error was set. -/
def handle (op : String) (args res : List String) : Option String :=
  match op, args with
  | "dec", [ty, hex] => do
    let bytes ← parseBytes? hex
    let prog ← (S2.Generated.DecoderIR.decoders.find? (·.1 == ty)).map (·.2)
    let (ic, kind, tok) ← implClass res
    let o := exec cfg prog (St.init bytes)
    let r := resultOf o
    let nf := nonfiniteOf o
    let lost := match r with | .value _ true => true | _ => false
    let prop : Option String :=
      if kind == "decode-panic" || kind == "query-panic" then
        if nf then some ("panic-nonfinite-vertex " ++ tok) else some (kind ++ " " ++ tok)
      else if kind == "decode-fatal" then some (kind ++ " " ++ tok)
      else if kind == "decode-timeout" then some kind
      else if lost && ic == "ok" then some "error-swallowed decoder-error-set-but-nil-returned"
      else none
    -- a D21 input on which the real code panics inside Decode is a `value` in the model (the panic is in opaque
    -- post-processing): report the class the model computed, the clause carries the finding
    pure (verdictP [modelClass r] [ic] prop)
  | _, _ => none

end Oracle.C15
