/-
  Oracle.C15 — correspondence + property predicate for C15 (decoding arbitrary bytes is total).
  Line:   dec <type> <hexbytes|~> = error | ok qok | ok QPANIC:<q>:<msg> | PANIC:<msg> | FATAL:<msg> | TIMEOUT
  The model is the regenerated decoder IR (S2.Generated.DecoderIR) run by the total interpreter
  S2.DecoderIR.run on the same bytes.
  Property predicate (on the implementation's own outcome): outcome ∈ {error, ok-and-queries-ok};
  additionally an `ok` on an input for which the decoder's own `d.err` was set (model: lostError) is a
  property failure ("declared counts beyond the limits are rejected", "returns an error or a value").
-/
import Oracle.Basic
import S2.DecoderIR
import S2.Generated.DecoderIR
namespace Oracle.C15
open Oracle S2.DecoderIR

def parseBytes? (s : String) : Option (List UInt8) :=
  if s == "~" then some [] else
  let rec go : List Char → List UInt8 → Option (List UInt8)
    | [], acc => some acc.reverse
    | [_], _ => none
    | a :: b :: r, acc =>
      match hexVal? a, hexVal? b with
      | some x, some y => go r (UInt8.ofNat (16 * x + y) :: acc)
      | _, _ => none
  go s.toList []

/-- memory the model process may use before `allocTooLarge` (the harness child is capped well below). -/
def cfg : Cfg := { memCap := 2 ^ 35 }

def modelClass : Result → String
  | .error _ => "error"
  | .value _ _ => "ok"
  | .panic _ => "PANIC"
  | .allocTooLarge => "FATAL"
  | .hang => "TIMEOUT"

def implClass (res : List String) : Option (String × Option String) :=
  match res with
  | ["error"] => some ("error", none)
  | ["ok", "qok"] => some ("ok", none)
  | ["ok", q] => if q.startsWith "QPANIC:" then some ("ok", some ("query-panic " ++ q)) else none
  | [t] =>
    if t.startsWith "PANIC:" then some ("PANIC", some ("decode-panic " ++ t))
    else if t.startsWith "FATAL:" then some ("FATAL", some ("decode-fatal " ++ t))
    else if t == "TIMEOUT" then some ("TIMEOUT", some "decode-timeout")
    else none
  | _ => none

def handle (op : String) (args res : List String) : Option String :=
  match op, args with
  | "dec", [ty, hex] => do
    let bytes ← parseBytes? hex
    let prog ← (S2.Generated.DecoderIR.decoders.find? (·.1 == ty)).map (·.2)
    let (ic, pf) ← implClass res
    let r := run cfg prog bytes
    let mc := modelClass r
    let lost := match r with | .value _ true => true | _ => false
    let prop : Option String :=
      match pf with
      | some c => some c
      | none => if lost && ic == "ok" then some "error-swallowed decoder-error-set-but-nil-returned" else none
    pure (verdictP [mc] [ic] prop)
  | _, _ => none

end Oracle.C15
