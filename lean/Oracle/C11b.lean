/-
  Oracle.C11b — correspondence + leaf-set judge for the CellIndex (s2/cell_index.go) and the
  multi-way intersection finder (s2/s2intersect).

  Tokens
    pairs      `cell/label,cell/label,…`   (`-` = none)          the `Add` calls, in order
    ranges     `start/limit/E|N/cell/label/cell/label…,…`         one element per range
    visits     `start/limit/cell/label/…,…`                       one element per visited range
    unions     `cu;cu;…` with cu = `id,id,…` or `-`  (`~` = no union at all)
    result     `i.j.k:id,id,…;…`  (`~` = no intersection)

  Ops
    cidx_raw    <pairs>          = <tree: cell/label/parent,…> <rangeNodes: start/contents,…>   (export hook)
    cidx_ranges <pairs>          = <ranges>      plain range iterator, fresh contents iterator per range
    cidx_sweep  <pairs> <mode>   = <visits>      ONE contents iterator; mode `A` = plain iterator Begin…Done,
                                                 `N` = non-empty iterator, else a list of range positions
    cidx_seek   <pairs> <leaf>   = st lim done prevOK stAfterPrev  (plain)  …same five… (non-empty)
    isect_find  <unions>         = <result>
-/
import Oracle.Basic
import S2.CellIndex
import S2.Intersect
namespace Oracle.C11b
open Oracle S2 S2.CellID S2.CellUnion S2.CellIndex

abbrev Pair := CellID × Int

def showPairFields (p : Pair) : List String := [u64Hex p.1, toString p.2]
def showPair (p : Pair) : String := "/".intercalate (showPairFields p)

def parsePairFields? : List String → Option (List Pair)
  | [] => some []
  | c :: l :: rest => do
    let c ← parseU64? c; let l ← parseInt? l; let r ← parsePairFields? rest
    pure ((c, l) :: r)
  | _ => none

def parsePairs? (s : String) : Option (List Pair) :=
  parseList? (fun t => match parsePairFields? (t.splitOn "/") with
    | some [p] => some p
    | _ => none) s

/-- one range as seen through the public iterators -/
structure RangeObs where
  start : CellID
  limit : CellID
  empty : Bool
  pairs : List Pair
deriving BEq

def showRangeObs (r : RangeObs) : String :=
  "/".intercalate ([u64Hex r.start, u64Hex r.limit, if r.empty then "E" else "N"] ++ r.pairs.flatMap showPairFields)

def parseRangeObs? (t : String) : Option RangeObs :=
  match t.splitOn "/" with
  | s :: l :: f :: rest => do
    let s ← parseU64? s; let l ← parseU64? l
    let e ← (if f == "E" then some true else if f == "N" then some false else none)
    let ps ← parsePairFields? rest
    pure { start := s, limit := l, empty := e, pairs := ps }
  | _ => none

def showVisit (v : CellID × CellID × List Pair) : String :=
  "/".intercalate ([u64Hex v.1, u64Hex v.2.1] ++ v.2.2.flatMap showPairFields)

def parseVisit? (t : String) : Option (CellID × CellID × List Pair) :=
  match t.splitOn "/" with
  | s :: l :: rest => do
    let s ← parseU64? s; let l ← parseU64? l
    let ps ← parsePairFields? rest
    pure (s, l, ps)
  | _ => none

/-! ### judge helpers -/

def pairLE (a b : Pair) : Bool := a.1 < b.1 || (a.1 == b.1 && a.2 ≤ b.2)
def sortPairs (l : List Pair) : List Pair := l.mergeSort pairLE
def countP (p : Pair) (l : List Pair) : Nat := (l.filter (· == p)).length

/-- the pairs whose cell meets the closed leaf interval `[a, b]` -/
def pairsMeeting (cells : List Pair) (a b : Nat) : List Pair :=
  cells.filter fun (c, _) => (rangeMin c).toNat ≤ b && a ≤ (rangeMax c).toNat

/-- The leaf-set judge for the observable range structure. -/
def judgeRanges (cells : List Pair) (rs : List RangeObs) : Option String :=
  match rs with
  | [] => some "no-range"
  | r0 :: _ =>
    if r0.start != firstLeaf then some "first-range-does-not-start-at-first-leaf"
    else if (rs.getLast?.map (·.limit)) != some endLeaf then some "last-range-does-not-end-at-end"
    else if !(rs.all fun r => r.start < r.limit && r.start.toNat % 2 == 1 && r.limit.toNat % 2 == 1) then
      some "range-empty-or-not-leaf-aligned"
    else if !((rs.zip (rs.drop 1)).all fun (a, b) => a.limit == b.start) then some "ranges-not-contiguous"
    else if !(rs.all fun r => r.empty == r.pairs.isEmpty) then some "isEmpty-vs-contents"
    else if !(rs.all fun r =>
        let s := r.start.toNat; let l := r.limit.toNat
        let got := sortPairs r.pairs
        let gotLabels := sortDedup (r.pairs.map (·.2))
        [s, l - 2, s + 2 * ((l - s) / 4)].all fun x =>
          got == sortPairs (pairsAt cells x) && gotLabels == labelsAt cells x) then
      some "contents-vs-leaf-set"
    else if !((rs.zip (rs.drop 1)).all fun (a, b) => sortPairs a.pairs != sortPairs b.pairs) then
      some "adjacent-ranges-same-contents"
    else if !(rs.all fun r => (r.pairs.zip (r.pairs.drop 1)).all fun (a, b) => contains b.1 a.1) then
      some "contents-chain-not-nested"
    else none

/-- The judge for a sequence of `StartUnion` visits with one contents iterator. -/
def judgeSweep (cells : List Pair) (vs : List (CellID × CellID × List Pair)) (complete : Bool) : Option String :=
  let expected := vs.map fun (s, l, _) => pairsMeeting cells s.toNat (l.toNat - 2)
  let reportedAll := vs.flatMap (·.2.2)
  let expectedAll := expected.flatten
  let increasing := (vs.zip (vs.drop 1)).all fun (a, b) => a.1 < b.1
  if !(vs.all fun (s, l, _) => s < l) then some "visited-range-empty"
  else if !((vs.zip expected).all fun ((_, _, rep), exp) => rep.all fun p => countP p rep ≤ countP p exp) then
    some "reported-pair-does-not-cover-range"
  else if !(expectedAll.all fun p => countP p reportedAll ≥ countP p cells) then some "pair-not-reported"
  else if increasing && !(reportedAll.all fun p => countP p reportedAll == countP p cells) then
    some "pair-reported-twice-in-increasing-sweep"
  else if complete && !(cells.all fun p => countP p reportedAll == countP p cells) then
    some "complete-sweep-misses-pair"
  else none

/-! ### isect_find -/

def parseUnions? (s : String) : Option (List CU) :=
  if s == "~" then some [] else (s.splitOn ";").mapM (parseList? parseU64?)

def showIntersection (i : Intersect.Intersection) : String :=
  ".".intercalate (i.indices.map toString) ++ ":" ++ showList u64Hex i.cells

def showResult (r : List Intersect.Intersection) : String :=
  if r.isEmpty then "~" else ";".intercalate (r.map showIntersection)

def parseResult? (s : String) : Option (List Intersect.Intersection) :=
  if s == "~" then some [] else
  (s.splitOn ";").mapM fun t =>
    match t.splitOn ":" with
    | [is, cs] => do
      let is ← (is.splitOn ".").mapM parseNat?
      let cs ← parseList? parseU64? cs
      pure { indices := is, cells := cs }
    | _ => none

def strictlyIncreasing : List Nat → Bool
  | a :: b :: rest => a < b && strictlyIncreasing (b :: rest)
  | _ => true

/-- sample positions: every range end of every cell, and its two neighbours, restricted to leaf ids -/
def samplePositions (cells : List CellID) : List Nat :=
  (cells.flatMap fun c =>
    let a := (rangeMin c).toNat; let b := (rangeMax c).toNat
    [a - 2, a, a + 2, b - 2, b, b + 2]).filter fun x => x % 2 == 1 && x < endLeaf.toNat

/-- The leaf-set judge for `Find`: at every sampled leaf `x`, with `S = {i | x ∈ cus[i]}`:
    if `|S| ≥ 2` then `x` lies in the entry with index set `S` and in no other entry, else in no entry. -/
def judgeFind (cus : List CU) (res : List Intersect.Intersection) : Option String :=
  if !(res.all fun i => i.indices.length ≥ 2 && strictlyIncreasing i.indices && i.indices.all (· < cus.length)) then
    some "find-index-set-malformed"
  else if !((List.range res.length).all fun a => (List.range a).all fun b => res[a]!.indices != res[b]!.indices) then
    some "find-index-set-repeated"
  else if !(res.all fun i => isNormalizedCU i.cells) then some "find-entry-not-normalized"
  else
    let xs := samplePositions (cus.flatten ++ res.flatMap (·.cells))
    if !(xs.all fun x =>
        let s := Intersect.coveringAt cus x
        let hit := (res.filter fun i => coversLeaf i.cells x).map (·.indices)
        if s.length ≥ 2 then hit == [s] else hit == []) then some "find-vs-leaf-sets"
    -- NOTE: `Find` can return an entry whose cell union is EMPTY (e.g. unions 1,2 continue while union 0
    -- ends at leaf x-2 and union 3 starts at leaf x).  This does not contradict the leaf-set semantics
    -- (no leaf has exactly that index set), so it is reported as an observation in DELIVER.md and is
    -- deliberately NOT a `propfail`.
    else none

/-! ### handler -/

def rangeObsOfIndex (ix : Index) : List RangeObs :=
  (rangeList ix).map fun (s, l, c) =>
    { start := s, limit := l, empty := c == doneContents, pairs := chain ix.tree (ix.tree.size + 1) c }

def showTree (t : Array TreeNode) : String :=
  showList (fun n => "/".intercalate [u64Hex n.cellID, toString n.label, toString n.parent]) t.toList
def showRangeNodes (r : Array RangeNode) : String :=
  showList (fun n => "/".intercalate [u64Hex n.startID, toString n.contents]) r.toList

def parseTree? (s : String) : Option (Array TreeNode) :=
  (parseList? (fun t => match t.splitOn "/" with
    | [c, l, p] => do
      let c ← parseU64? c; let l ← parseInt? l; let p ← parseInt? p
      pure ({ cellID := c, label := l, parent := p } : TreeNode)
    | _ => none) s).map List.toArray

def parseRangeNodes? (s : String) : Option (Array RangeNode) :=
  (parseList? (fun t => match t.splitOn "/" with
    | [c, k] => do
      let c ← parseU64? c; let k ← parseInt? k
      pure ({ startID := c, contents := k } : RangeNode)
    | _ => none) s).map List.toArray

def seekTokens (r : RangeIter) (target : CellID) : List String :=
  let r := r.seek target
  let (rp, ok) := r.prev
  [u64Hex r.startID, if r.done then "-" else u64Hex r.limitID, showBool r.done, showBool ok, u64Hex rp.startID]

def handle (op : String) (args res : List String) : Option String :=
  match op, args with
  | "cidx_raw", [a] => do
    let cells ← parsePairs? a
    let ix := build cells
    let model := [showTree ix.tree, showRangeNodes ix.ranges]
    let prop : Option String := match res with
      | [t, r] => (do
          let t ← parseTree? t; let r ← parseRangeNodes? r
          -- parent links must point strictly backwards (termination of every chain walk)
          if !((List.range t.size).all fun i => t[i]!.parent < (i : Int) && t[i]!.parent ≥ -1) then
            pure (some "tree-parent-not-backwards")
          else if !(r.toList.all fun n => n.contents < (t.size : Int) && n.contents ≥ -1) then
            pure (some "range-contents-out-of-tree")
          else if sortPairs (t.toList.map fun (n : TreeNode) => (n.cellID, n.label)) != sortPairs cells then
            pure (some "tree-nodes-vs-added-pairs")
          else pure (judgeRanges cells (rangeObsOfIndex { tree := t, ranges := r }))).getD (some "unparseable")
      | _ => some "impl-output-arity"
    pure (verdictP model res prop)
  | "cidx_ranges", [a] => do
    let cells ← parsePairs? a
    let ix := build cells
    let model := [showList showRangeObs (rangeObsOfIndex ix)]
    let prop : Option String := match res with
      | [r] => (do
          let rs ← parseList? parseRangeObs? r
          pure (judgeRanges cells rs)).getD (some "unparseable")
      | _ => some "impl-output-arity"
    pure (verdictP model res prop)
  | "cidx_sweep", [a, m] => do
    let cells ← parsePairs? a
    let ix := build cells
    let out ← (if m == "A" then some (sweepIter ix false)
      else if m == "N" then some (sweepIter ix true)
      else do
        let ps ← parseList? parseNat? m
        if !(ps.all fun p => p + 1 < ix.ranges.size) then none else
        let outs := sweep ix ps
        pure ((ps.zip outs).map fun (p, o) => ((rangeAt ix p).startID, (rangeAt ix p).limitID, o)))
    let model := [showList showVisit out]
    let prop : Option String := match res with
      | [r] => (do
          let vs ← parseList? parseVisit? r
          pure (judgeSweep cells vs (m == "A" || m == "N"))).getD (some "unparseable")
      | _ => some "impl-output-arity"
    pure (verdictP model res prop)
  | "cidx_seek", [a, t] => do
    let cells ← parsePairs? a
    let target ← parseU64? t
    let ix := build cells
    let model := seekTokens (RangeIter.new ix) target ++ seekTokens (RangeIter.newNonEmpty ix) target
    let tn := target.toNat
    let prop : Option String := match res with
      | [s1, l1, d1, p1, q1, s2, l2, d2, _, _] => (do
          let s1 ← parseU64? s1; let s2 ← parseU64? s2; let q1 ← parseU64? q1
          -- plain iterator: the range containing the target
          if d1 != "F" then pure (some "seek-plain-done") else do
          let l1 ← parseU64? l1
          if !(s1 ≤ target && target < l1) then pure (some "seek-plain-range-does-not-contain-target")
          else if p1 != showBool (s1 != firstLeaf) then pure (some "prev-plain-result")
          else if p1 == "T" && !(q1 < s1 && pairsMeeting cells q1.toNat (s1.toNat - 2) == pairsAt cells q1.toNat) then
            pure (some "prev-plain-position")
          -- non-empty iterator: the first non-empty range whose limit is beyond the target
          else if d2 == "T" then
            pure (if s2 != endLeaf then some "seek-nonempty-done-startid"
                  else if !(pairsMeeting cells tn (endLeaf.toNat - 2)).isEmpty then some "seek-nonempty-done-but-cells-follow"
                  else none)
          else do
            let l2 ← parseU64? l2
            pure (if !(target < l2 && s2 < l2) then some "seek-nonempty-range-before-target"
                  else if (pairsAt cells s2.toNat).isEmpty then some "seek-nonempty-on-empty-range"
                  else if pairsMeeting cells s2.toNat (l2.toNat - 2) != pairsAt cells s2.toNat then some "seek-nonempty-range-not-uniform"
                  else if tn < s2.toNat && !(pairsMeeting cells tn (s2.toNat - 2)).isEmpty then some "seek-nonempty-skipped-cells"
                  else none)).getD (some "unparseable")
      | _ => some "impl-output-arity"
    pure (verdictP model res prop)
  | "isect_find", [a] => do
    let cus ← parseUnions? a
    let model := [showResult (Intersect.find cus)]
    let prop : Option String := match res with
      | [r] => (do
          let r ← parseResult? r
          pure (judgeFind cus r)).getD (some "unparseable")
      | _ => some "impl-output-arity"
    pure (verdictP model res prop)
  | _, _ => none

end Oracle.C11b
