import Oracle.C06pc
import Oracle.Main
import Oracle.C04Build
