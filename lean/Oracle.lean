import Oracle.C06pc
import Oracle.Main
import Oracle.C04Build
import Oracle.C07Walk
