import Oracle.Main
