import Oracle.C06pc
import Oracle.Main
