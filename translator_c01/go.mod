module translator_c01

go 1.21
