// nbr.go — the (face,i,j) <-> Hilbert position functions and the neighbour functions of s2/cellid.go
// -> CellIDNbrFns.lean (ties: lean/S2Proofs/Ties/C01_Neighbors.lean).
//
// Translated from the Go source with the rules of main.go plus:
//
//	for k := C; k >= 0; k-- {…}   -> left fold of the body over [C, …, 1, 0] (countDownFold; no fuel)
//	named results + bare return   -> zero-initialised locals, `return` = their tuple
//	a, b, _ := f(…)               -> the call's tuple bound once, then projections
//	[4]CellID{…}                  -> tuple;  []CellID{…} / nil / append(s, x)  -> #[…] / #[] / s.push x
//
// Functions whose ints may be negative (clampInt, cellIDFromFaceIJWrap/Same, Edge/Vertex/AllNeighbors) model Go
// `int` as Int (`intAsInt`): + - * and comparisons are exact (Go's int is 64 bits; every value here is below 2^33 in
// absolute value, so no wrap-around), `x << c` = `ishl x c` = x·2^c, `x & y` = `iand x y` (two's complement on 64-bit
// words; for two non-negative operands the plain bitwise and).  Where such a function calls one whose ints are Nat
// (Level, Parent, sizeIJ, cellIDFromFaceIJ, faceIJOrientation) the argument is cast with Int.toNat and the result
// with Int.ofNat: exact for non-negative arguments, which is those functions' contract.
//
// Floating point (only in cellIDFromFaceIJWrap): float64 = the bit-exact soft-float S2.F64, constants are the
// bit patterns the compiler produces, math.Max/Min/Nextafter = S2.F64.fmax/fmin/nextafter.  The stuv.go functions
// faceUVToXYZ, xyzToFaceUV, stToIJ are NOT translated: calls to them are emitted as calls to the hand models
// S2.STUV.* BY NAME (pkgExterns below); those models stay tied to the Go code by the behavioural correspondence
// (check C01: ops cidfij / cidnbr / cidpt) only.  Their source hash is recorded in facts.json.
package main

import (
	"fmt"
	"go/ast"
	"go/constant"
	"go/token"
	"go/types"
	"strings"
)

type externFn struct {
	lean   string
	natArg []bool // int parameters the hand model takes as Nat (cube faces)
	natRes []bool // int results the hand model returns as Nat
}

// pkgExterns: functions of package s2 (stuv.go) referred to by name, see the file comment.
var pkgExterns = map[string]externFn{
	"faceUVToXYZ": {"_root_.S2.STUV.faceUVToXYZ", []bool{true, false, false}, []bool{false}},
	"xyzToFaceUV": {"_root_.S2.STUV.xyzToFaceUV", []bool{false}, []bool{true, false, false}},
	"stToIJ":      {"_root_.S2.STUV.stToIJ", []bool{false}, []bool{false}},
}

var pkgExternsUsed = map[string]bool{}

func isR3Vector(t types.Type) bool {
	n, ok := t.(*types.Named)
	return ok && n.Obj().Pkg() != nil && n.Obj().Pkg().Path() == modPrefix+"r3" && n.Obj().Name() == "Vector"
}

func (e *env) externCall(c *ast.CallExpr, fn *types.Func, ex externFn) (string, []bool) {
	sig := fn.Type().(*types.Signature)
	if sig.Params().Len() != len(ex.natArg) || sig.Results().Len() != len(ex.natRes) || len(c.Args) != len(ex.natArg) {
		fatal(c.Pos(), "signature of %s changed: the by-name reference to its hand model is no longer valid", fn.Name())
	}
	var args []string
	for i, a := range c.Args {
		s := e.atom(a)
		if ex.natArg[i] {
			if !isGoInt(sig.Params().At(i).Type()) {
				fatal(c.Pos(), "signature of %s changed", fn.Name())
			}
			s = "(Int.toNat " + s + ")"
		}
		args = append(args, s)
	}
	for i, b := range ex.natRes {
		if b && !isGoInt(sig.Results().At(i).Type()) {
			fatal(c.Pos(), "signature of %s changed", fn.Name())
		}
	}
	pkgExternsUsed[fn.Name()] = true
	return "(" + ex.lean + " " + strings.Join(args, " ") + ")", ex.natRes
}

// mathCall: the three functions of package math used by cellIDFromFaceIJWrap.
func (e *env) mathCall(c *ast.CallExpr, q string) (string, bool) {
	ln, ok := map[string]string{"math.Max": "_root_.S2.F64.fmax", "math.Min": "_root_.S2.F64.fmin", "math.Nextafter": "_root_.S2.F64.nextafter"}[q]
	if !ok {
		return "", false
	}
	if len(c.Args) != 2 {
		fatal(c.Pos(), "unsupported call %s", src(c))
	}
	for _, a := range c.Args {
		if e.u.kindOf(a) != kF64 {
			fatal(a.Pos(), "argument of %s is not a float64", q)
		}
	}
	return "(" + ln + " " + e.atom(c.Args[0]) + " " + e.atom(c.Args[1]) + ")", true
}

// parseUintMatch: the two statements
//
//	n, err := strconv.ParseUint(s, 16, 64)
//	if err != nil { return X }
//
// become `match S2.CellID.parseHex s.toList with | none => X | some n' => let n : UInt64 := UInt64.ofNat n'; …rest`.
// S2.CellID.parseHex is the hand model of strconv.ParseUint(·, 16, 64) on at most 16 characters (none = error),
// referred to BY NAME (standard library, not translated); on ≤ 16 hex digits the value is < 2^64, so
// UInt64.ofNat is exact.  `err` must not be used anywhere else.
func (e *env) parseUintMatch(v *ast.AssignStmt, rest []ast.Stmt, ind string, fall fallFn, end token.Pos) (string, bool) {
	if !strOK || v.Tok != token.DEFINE || len(v.Lhs) != 2 || len(v.Rhs) != 1 || e.loop != nil {
		return "", false
	}
	c, ok := unparen(v.Rhs[0]).(*ast.CallExpr)
	if !ok {
		return "", false
	}
	sel, ok := unparen(c.Fun).(*ast.SelectorExpr)
	if !ok {
		return "", false
	}
	fn, ok := e.u.pi.info.Uses[sel.Sel].(*types.Func)
	if !ok || fn.Pkg() == nil || fn.Pkg().Path()+"."+fn.Name() != "strconv.ParseUint" {
		return "", false
	}
	if len(c.Args) != 3 || e.u.kindOf(c.Args[0]) != kStr {
		fatal(c.Pos(), "unsupported call %s", src(c))
	}
	for i, want := range []int64{16, 64} {
		cv := e.u.constVal(c.Args[i+1])
		if cv == nil {
			fatal(c.Pos(), "non-constant base / bit size in %s", src(c))
		}
		if got, exact := constant.Int64Val(constant.ToInt(cv)); !exact || got != want {
			fatal(c.Pos(), "strconv.ParseUint with base / bit size other than 16 / 64: %s (the by-name model parseHex does not apply)", src(c))
		}
	}
	nid, ok1 := v.Lhs[0].(*ast.Ident)
	eid, ok2 := v.Lhs[1].(*ast.Ident)
	if !ok1 || !ok2 || nid.Name == "_" || eid.Name == "_" {
		fatal(v.Pos(), "unsupported assignment %s", src(v))
	}
	nobj, eobj := e.u.pi.info.Defs[nid], e.u.pi.info.Defs[eid]
	if nobj == nil || eobj == nil || kindOfType(nobj.Type()) != kU64 {
		fatal(v.Pos(), "unsupported assignment %s", src(v))
	}
	if len(rest) == 0 {
		fatal(v.Pos(), "error value of %s is not tested by the next statement", src(c))
	}
	ifs, ok := rest[0].(*ast.IfStmt)
	if !ok || ifs.Init != nil || ifs.Else != nil || !terminates(ifs.Body.List) {
		fatal(rest[0].Pos(), "error value of %s is not tested by `if err != nil { return … }`", src(c))
	}
	cond, ok := unparen(ifs.Cond).(*ast.BinaryExpr)
	if !ok || cond.Op != token.NEQ {
		fatal(ifs.Pos(), "unsupported error test %s", src(ifs.Cond))
	}
	cx, ok1 := unparen(cond.X).(*ast.Ident)
	cy, ok2 := unparen(cond.Y).(*ast.Ident)
	if !ok1 || !ok2 || e.u.pi.info.Uses[cx] != eobj {
		fatal(ifs.Pos(), "unsupported error test %s", src(ifs.Cond))
	}
	if _, isNil := e.u.pi.info.Uses[cy].(*types.Nil); !isNil {
		fatal(ifs.Pos(), "unsupported error test %s", src(ifs.Cond))
	}
	uses := 0
	ast.Inspect(e.fd.Body, func(x ast.Node) bool {
		if id, ok := x.(*ast.Ident); ok && e.u.pi.info.Uses[id] == eobj {
			uses++
		}
		return true
	})
	if uses != 1 {
		fatal(v.Pos(), "error value %s is used other than in the test that follows", eid.Name)
	}
	in := ind + "  "
	none := e.seq(ifs.Body.List, in, nil, ifs.Body.End())
	some := e.seq(rest[1:], in, fall, end)
	raw := leanLocal(nid.Name) + "'"
	return fmt.Sprintf("%smatch (_root_.S2.CellID.parseHex %s.toList) with\n%s| none =>\n%s\n%s| some %s =>\n%slet %s : UInt64 := (UInt64.ofNat %s)\n%s",
		ind, e.atom(c.Args[0]), ind, none, ind, raw, in, leanLocal(nid.Name), raw, some), true
}

const nbrPrelude = `/-
  GENERATED by translator_c01 from s2/cellid.go, s2/util.go — do not edit.
  cellIDFromFaceIJ, faceIJOrientation (Go int = Nat), clampInt, cellIDFromFaceIJWrap, cellIDFromFaceIJSame,
  EdgeNeighbors, VertexNeighbors, AllNeighbors (Go int = Int), CellIDFromToken, translated statement by statement
  (rules: translator_c01/main.go and nbr.go).  float64 = S2.F64 (bit-exact soft-float).
  NOT translated, referred to BY NAME (hand models of s2/stuv.go, tied by behavioural correspondence only):
  S2.STUV.faceUVToXYZ, S2.STUV.xyzToFaceUV, S2.STUV.stToIJ; S2.CellID.parseHex (= strconv.ParseUint(·, 16, 64)).
-/
import S2.Generated.CellIDFns
import S2.STUV
set_option linter.unusedVariables false
namespace S2
namespace Generated
namespace CellIDNbrFns
open S2.CellID (wordOfInt int64OfWord)
open CellIDFns (shl64 shr64)

/-- Go ` + "`x << n`" + ` on int, modelled on Int: x·2^n (exact as long as the Go value does not overflow 64 bits). -/
def ishl (x : Int) (n : Nat) : Int := x * 2 ^ n
/-- Go ` + "`x & y`" + ` on int: the bitwise and of the 64-bit two's-complement words; for two non-negative
    operands that is the bitwise and of the numbers. -/
def iand : Int → Int → Int
  | .ofNat a, .ofNat b => Int.ofNat (a &&& b)
  | a, b => int64OfWord (wordOfInt a &&& wordOfInt b)

`

func genCellIDNbr(pi *pkgInfo, facts *[]fact, emitted map[string]string) string {
	u := newUnit(pi, "CellIDNbrFns", emitted)
	u.out.WriteString(nbrPrelude)
	// the lookup tables built by init() live in CellIDFns (tie_lookupPos / tie_lookupIJ)
	u.globals["lookupPos"] = "CellIDFns.lookupPos"
	u.globals["lookupIJ"] = "CellIDFns.lookupIJ"
	u.section("(face, i, j) <-> Hilbert position (Go int = Nat)")
	u.fn("cellIDFromFaceIJ", fnOpt{})
	u.fn("CellID.faceIJOrientation", fnOpt{})
	u.section("wrap onto the adjacent face (Go int = Int, float64 = S2.F64)")
	u.fn("clampInt", fnOpt{intAsInt: true})
	u.fn("cellIDFromFaceIJWrap", fnOpt{intAsInt: true, floats: true})
	u.fn("cellIDFromFaceIJSame", fnOpt{intAsInt: true})
	u.section("neighbours (Go int = Int)")
	u.fn("CellID.EdgeNeighbors", fnOpt{intAsInt: true})
	u.fn("CellID.VertexNeighbors", fnOpt{intAsInt: true})
	// AllNeighbors: k runs over -nbrSize, 0, nbrSize, …, size in steps of nbrSize: size/nbrSize + 2 iterations
	u.fn("CellID.AllNeighbors", fnOpt{intAsInt: true, fuel: []string{"Int.toNat (size / nbrSize) + 2"}})
	u.section("tokens (string = String, len = number of characters; strconv.ParseUint(·, 16, 64) = S2.CellID.parseHex by name)")
	u.fn("CellIDFromToken", fnOpt{strs: true})
	u.out.WriteString("end CellIDNbrFns\nend Generated\nend S2\n")
	// by-name references: record the source hash of the referenced Go functions
	for _, n := range []string{"faceUVToXYZ", "stToIJ", "xyzToFaceUV"} {
		if !pkgExternsUsed[n] {
			die("by-name reference %s is no longer used by the translated functions", n)
		}
		fd := u.findFunc(n)
		u.facts = append(u.facts, fact{Name: n, Kind: "byname", Pos: relpos(fd.Pos()), Lean: strings.TrimPrefix(pkgExterns[n].lean, "_root_."), Sha256: sha(src(fd))})
	}
	*facts = append(*facts, u.facts...)
	return u.out.String()
}
