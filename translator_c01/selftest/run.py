#!/usr/bin/env python3
"""mutation self-test: apply one textual edit to a scratch copy of the repo, regenerate, build the ties."""
import os, re, shutil, subprocess, sys, json
ROOT = "/tmp/agents/tr01"
VERIF = ROOT + "/verif"
LEAN = VERIF + "/lean"
GEN = LEAN + "/S2/Generated"
MREPO = ROOT + "/mrepo"
ENV = dict(os.environ, GOFLAGS="-mod=mod", GOPROXY="off", GOSUMDB="off", GOTOOLCHAIN="local")
OURS = ["CellIDFns.lean", "CellUnionFns.lean", "PredConsts.lean", "CodecConsts.lean"]
TIES = ["S2Proofs.Ties.C01", "S2Proofs.Ties.C11", "S2Proofs.Ties.C02", "S2Proofs.Ties.C09"]

MUTS = json.load(open(ROOT + "/mut/muts.json"))

def sh(cmd, cwd=None):
    p = subprocess.run(cmd, cwd=cwd, env=ENV, stdout=subprocess.PIPE, stderr=subprocess.STDOUT, text=True)
    return p.returncode, p.stdout

def regen(repo):
    out = ROOT + "/mut/out"
    shutil.rmtree(out, ignore_errors=True); os.makedirs(out)
    rc, o = sh([ROOT + "/tr", "-repo", repo, "-out", out, "-facts", ROOT + "/mut/facts.json"], cwd="/tmp")
    return rc, o, out

def install(out):
    for f in os.listdir(out):
        shutil.copyfile(os.path.join(out, f), os.path.join(GEN, f))

def build():
    ties = [t for t in TIES if os.path.exists(LEAN + "/" + t.replace(".", "/") + ".lean")]
    rc, o = sh(["lake", "build"] + ties, cwd=LEAN)
    errs = re.findall(r"error: (S2\S+\.lean):(\d+):", o)
    names = []
    for f, ln in errs:
        lines = open(os.path.join(LEAN, f)).read().split("\n")
        i = int(ln) - 1
        while i >= 0 and not re.match(r"^(private )?(theorem|example|def)\b", lines[i]):
            i -= 1
        nm = lines[i].split(":")[0].strip() if i >= 0 else "?"
        names.append(f"{os.path.basename(f)}:{nm}")
    return rc, sorted(set(names)), o

only = sys.argv[1:]
results = []
for m in MUTS:
    if only and m["id"] not in only:
        continue
    shutil.rmtree(MREPO, ignore_errors=True)
    shutil.copytree("/repo", MREPO, ignore=shutil.ignore_patterns(".git"))
    path = os.path.join(MREPO, m["file"])
    s = open(path).read()
    if s.count(m["old"]) != 1:
        print(f'{m["id"]}: pattern occurs {s.count(m["old"])} times — skipped'); continue
    open(path, "w").write(s.replace(m["old"], m["new"]))
    rc, o, out = regen(MREPO)
    if rc != 0:
        res = "TRANSLATOR FAILED LOUDLY: " + o.strip().split("\n")[-1]
    else:
        install(out)
        rc, names, o = build()
        res = ("BUILD BROKEN: " + ", ".join(names)) if rc != 0 else "NOT DETECTED"
    print(f'{m["id"]}: {m["file"]}: `{m["old"]}` -> `{m["new"]}`  ==> {res}', flush=True)
    results.append((m, res))
# restore
rc, o, out = regen("/repo")
assert rc == 0, o
install(out)
rc, names, o = build()
print("restored unchanged tree: build", "ok" if rc == 0 else "FAILED " + o[-2000:])
