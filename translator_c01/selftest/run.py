#!/usr/bin/env python3
"""mutation self-test: apply one textual edit to a scratch copy of the repo, regenerate, build the ties.

usage:  SELFTEST_VERIF=<private copy of verif/> [SELFTEST_WORK=<scratch dir>] [SELFTEST_REPO=/repo] run.py [mutant ids…]

The script REWRITES <verif>/lean/S2/Generated and runs `lake build` there: give it a private copy of the tree
(never /verif itself).  It builds the translator from <verif>/translator_c01, reads muts.json next to this file,
and restores the unmutated generated files at the end.  About 15-25 s per mutant."""
import os, re, shutil, subprocess, sys, json
HERE = os.path.dirname(os.path.abspath(__file__))
VERIF = os.environ.get("SELFTEST_VERIF") or os.path.dirname(os.path.dirname(HERE))
if os.path.realpath(VERIF) == "/verif":
    sys.exit("refusing to run inside /verif: set SELFTEST_VERIF to a private copy")
WORK = os.environ.get("SELFTEST_WORK", "/tmp/translator_c01_selftest")
REPO = os.environ.get("SELFTEST_REPO", "/repo")
LEAN = VERIF + "/lean"
GEN = LEAN + "/S2/Generated"
MREPO = WORK + "/mrepo"
TRBIN = WORK + "/tr"
ENV = dict(os.environ, GOFLAGS="-mod=mod", GOPROXY="off", GOSUMDB="off", GOTOOLCHAIN="local")
TIES = ["S2Proofs.Ties.C01", "S2Proofs.Ties.C01_Neighbors", "S2Proofs.Ties.C01_Strings", "S2Proofs.Ties.C11", "S2Proofs.Ties.C02", "S2Proofs.Ties.C09"]

MUTS = json.load(open(HERE + "/muts.json"))
os.makedirs(WORK, exist_ok=True)

def sh(cmd, cwd=None):
    p = subprocess.run(cmd, cwd=cwd, env=ENV, stdout=subprocess.PIPE, stderr=subprocess.STDOUT, text=True)
    return p.returncode, p.stdout

def regen(repo):
    out = WORK + "/out"
    shutil.rmtree(out, ignore_errors=True); os.makedirs(out)
    rc, o = sh([TRBIN, "-repo", repo, "-out", out, "-facts", WORK + "/facts.json"], cwd="/tmp")
    return rc, o, out

def install(out):
    for f in os.listdir(out):
        shutil.copyfile(os.path.join(out, f), os.path.join(GEN, f))

def build():
    ties = [t for t in TIES if os.path.exists(LEAN + "/" + t.replace(".", "/") + ".lean")]
    rc, o = sh(["lake", "build"] + ties, cwd=LEAN)
    errs = re.findall(r"error: (S2\S+\.lean):(\d+):", o)
    names = []
    for f, ln in errs:
        lines = open(os.path.join(LEAN, f)).read().split("\n")
        i = int(ln) - 1
        while i >= 0 and not re.match(r"^(private )?(theorem|example|def)\b", lines[i]):
            i -= 1
        nm = lines[i].split(":")[0].strip() if i >= 0 else "?"
        names.append(f"{os.path.basename(f)}:{nm}")
    return rc, sorted(set(names)), o

rc, o = sh(["go", "build", "-o", TRBIN, "."], cwd=VERIF + "/translator_c01")
assert rc == 0, o
only = sys.argv[1:]
results = []
for m in MUTS:
    if only and m["id"] not in only:
        continue
    shutil.rmtree(MREPO, ignore_errors=True)
    shutil.copytree(REPO, MREPO, ignore=shutil.ignore_patterns(".git"))
    path = os.path.join(MREPO, m["file"])
    s = open(path).read()
    if s.count(m["old"]) != 1:
        print(f'{m["id"]}: pattern occurs {s.count(m["old"])} times — skipped'); continue
    open(path, "w").write(s.replace(m["old"], m["new"]))
    rc, o, out = regen(MREPO)
    if rc != 0:
        res = "TRANSLATOR FAILED LOUDLY: " + o.strip().split("\n")[-1]
    else:
        install(out)
        rc, names, o = build()
        res = ("BUILD BROKEN: " + ", ".join(names)) if rc != 0 else "NOT DETECTED"
    print(f'{m["id"]}: {m["file"]}: `{m["old"]}` -> `{m["new"]}`  ==> {res}', flush=True)
    results.append((m, res))
# restore
rc, o, out = regen(REPO)
assert rc == 0, o
install(out)
rc, names, o = build()
print("restored unchanged tree: build", "ok" if rc == 0 else "FAILED " + o[-2000:])
