// str.go — the token / string formatting functions of s2/cellid.go: CellID.ToToken, CellID.String, CellIDFromString
// -> CellIDStrFns.lean (ties: lean/S2Proofs/Ties/C01_Strings.lean).
//
// Control flow, constants ("X", "Invalid: ", "012345", "0123", '/', '0', 16, 2, 3, 5, MaxLevel), loop bounds and indices
// come from the Go AST with the rules of main.go / nbr.go plus:
//
//	string                     -> Lean String; len(s) = s.toList.length (number of characters = number of bytes for ASCII
//	                              strings; a Go string is a byte string, so the generated functions describe the Go code
//	                              on ASCII strings — every string these functions produce, and every string
//	                              CellIDFromString does not reject, is ASCII)
//	byte                       -> UInt8 (wrap-around + -, as in Go)
//	s[i]                       -> strAt s i : UInt8 (the code of the i-th character as a byte; Go panics when i >= len(s),
//	                              strAt yields 0 — never reached: every index is guarded by a length test in the source)
//	s + t                      -> s ++ t
//	var b bytes.Buffer         -> b : List UInt8 := [] (the bytes written so far)
//	b.WriteByte(x)             -> b := b ++ [x]
//	b.String()                 -> bufString b (the string with these bytes as characters; exact for ASCII bytes)
//	f()[k] with k a variable   -> idx4 (f …) k on the 4-tuple that models a [4]CellID (Go panics for k >= 4; idx4 yields 0 —
//	                              never reached: guarded by `childPos > 3` in the source)
//	return x inside a loop     -> the loop function is Except-valued (main.go forStmt)
//
// Standard-library calls referred to BY NAME (their meaning is the small core-only Lean function given in the prelude
// below; they are NOT translated from the library's source, and stay checked by the behavioural correspondence only):
//
//	fmt.Sprintf("%016x", x)    -> fmtHex16 x       (x uint64; the format string must be exactly "%016x")
//	strings.TrimRight(s, cs)   -> trimRight s cs
//	strconv.FormatInt(v, b)    -> formatInt v b    (v int64 = Int, 2 <= b <= 36 a constant)
package main

import (
	"fmt"
	"go/ast"
	"go/constant"
	"go/token"
	"go/types"
	"strings"
)

func isBytesBuffer(t types.Type) bool {
	if p, ok := t.(*types.Pointer); ok {
		t = p.Elem()
	}
	n, ok := t.(*types.Named)
	return ok && n.Obj().Pkg() != nil && n.Obj().Pkg().Path() == "bytes" && n.Obj().Name() == "Buffer"
}

// leanStringLit: a Go string constant as a Lean string literal (printable ASCII without quote / backslash only).
func leanStringLit(p token.Pos, v constant.Value) string {
	if v.Kind() != constant.String {
		fatal(p, "constant %s is not a string", v)
	}
	s := constant.StringVal(v)
	for _, r := range s {
		if r < 0x20 || r > 0x7e || r == '"' || r == '\\' {
			fatal(p, "string constant %q contains a character outside the supported (printable ASCII) range", s)
		}
	}
	return "\"" + s + "\""
}

// natIndex: an index expression as a Lean Nat (constants as plain numerals, Int-modelled ints via Int.toNat, bytes via toNat).
func (e *env) natIndex(x ast.Expr) string {
	if v := e.u.constVal(x); v != nil {
		i, exact := constant.Int64Val(constant.ToInt(v))
		if !exact || i < 0 {
			fatal(x.Pos(), "bad constant index %s", src(x))
		}
		return fmt.Sprint(i)
	}
	switch e.u.kindOf(x) {
	case kNat:
		return e.atom(x)
	case kInt:
		if intAsInt && isGoInt(e.u.typeOf(x)) {
			return "(Int.toNat " + e.atom(x) + ")"
		}
	case kU8:
		return "(" + e.atom(x) + ").toNat"
	}
	fatal(x.Pos(), "index of unsupported type in %s", src(x))
	return ""
}

// strIndex: s[i] on a string (constant or variable).
func (e *env) strIndex(v *ast.IndexExpr) (string, bool) {
	if !strOK {
		return "", false
	}
	b, ok := e.u.typeOf(v.X).Underlying().(*types.Basic)
	if !ok || b.Info()&types.IsString == 0 {
		return "", false
	}
	return "(strAt " + e.atom(v.X) + " " + e.natIndex(v.Index) + ")", true
}

// varIndex4: f(…)[k] with f returning [4]CellID (modelled as a 4-tuple) and k not a constant.
func (e *env) varIndex4(v *ast.IndexExpr, c *ast.CallExpr, at *types.Array) string {
	if at.Len() != 4 || kindOfType(at.Elem()) != kU64 {
		fatal(v.Pos(), "unsupported index expression %s", src(v))
	}
	return "(idx4 " + e.atom(c) + " " + e.natIndex(v.Index) + ")"
}

// bufWriteTarget: x is `b.WriteByte(…)` with b a local bytes.Buffer -> the identifier b.
func (e *env) bufWriteTarget(x ast.Expr) *ast.Ident {
	if !strOK {
		return nil
	}
	c, ok := x.(*ast.CallExpr)
	if !ok {
		return nil
	}
	f, ok := unparen(c.Fun).(*ast.SelectorExpr)
	if !ok {
		return nil
	}
	sel, ok := e.u.pi.info.Selections[f]
	if !ok || sel.Kind() != types.MethodVal || !isBytesBuffer(sel.Recv()) {
		return nil
	}
	id, ok := unparen(f.X).(*ast.Ident)
	if !ok {
		fatal(x.Pos(), "bytes.Buffer method called on something other than a local variable: %s", src(x))
	}
	if f.Sel.Name != "WriteByte" || len(c.Args) != 1 {
		fatal(x.Pos(), "unsupported bytes.Buffer statement %s", src(x))
	}
	return id
}

// bufWrite: the statement `b.WriteByte(x)`.
func (e *env) bufWrite(c *ast.CallExpr, ind string) (string, bool) {
	id := e.bufWriteTarget(c)
	if id == nil {
		return "", false
	}
	if e.u.kindOf(c.Args[0]) != kU8 {
		fatal(c.Pos(), "argument of WriteByte is not a byte")
	}
	n := leanLocal(id.Name)
	return fmt.Sprintf("%slet %s : List UInt8 := (%s ++ [%s])\n", ind, n, n, e.expr(c.Args[0])), true
}

// bufCall: a bytes.Buffer method used as a value: only b.String().
func (e *env) bufCall(c *ast.CallExpr, f *ast.SelectorExpr) string {
	if f.Sel.Name != "String" || len(c.Args) != 0 {
		fatal(c.Pos(), "unsupported bytes.Buffer method in %s", src(c))
	}
	if _, ok := unparen(f.X).(*ast.Ident); !ok {
		fatal(c.Pos(), "bytes.Buffer method called on something other than a local variable: %s", src(c))
	}
	return "(bufString " + e.atom(f.X) + ")"
}

// strLibCall: the three standard-library functions referred to by name (see the file comment).
func (e *env) strLibCall(c *ast.CallExpr, q string) (string, bool) {
	switch q {
	case "fmt.Sprintf":
		if len(c.Args) != 2 || c.Ellipsis.IsValid() {
			fatal(c.Pos(), "unsupported call %s", src(c))
		}
		fv := e.u.constVal(c.Args[0])
		if fv == nil || fv.Kind() != constant.String || constant.StringVal(fv) != "%016x" {
			fatal(c.Pos(), "fmt.Sprintf with a format other than \"%%016x\": %s (the by-name model fmtHex16 does not apply)", src(c))
		}
		if e.u.kindOf(c.Args[1]) != kU64 {
			fatal(c.Pos(), "fmt.Sprintf(\"%%016x\", x) with x not a uint64: %s", src(c))
		}
		return "(fmtHex16 " + e.atom(c.Args[1]) + ")", true
	case "strings.TrimRight":
		if len(c.Args) != 2 || e.u.kindOf(c.Args[0]) != kStr || e.u.kindOf(c.Args[1]) != kStr {
			fatal(c.Pos(), "unsupported call %s", src(c))
		}
		return "(trimRight " + e.atom(c.Args[0]) + " " + e.atom(c.Args[1]) + ")", true
	case "strconv.FormatInt":
		if len(c.Args) != 2 || e.u.kindOf(c.Args[0]) != kInt {
			fatal(c.Pos(), "unsupported call %s", src(c))
		}
		bv := e.u.constVal(c.Args[1])
		if bv == nil {
			fatal(c.Pos(), "strconv.FormatInt with a non-constant base: %s", src(c))
		}
		b, exact := constant.Int64Val(constant.ToInt(bv))
		if !exact || b < 2 || b > 36 {
			fatal(c.Pos(), "strconv.FormatInt with an invalid base: %s", src(c))
		}
		return fmt.Sprintf("(formatInt %s %d)", e.atom(c.Args[0]), b), true
	}
	return "", false
}

const strPrelude = `/-
  GENERATED by translator_c01 from s2/cellid.go — do not edit.
  CellID.ToToken, CellID.String (as CellID_String), CellIDFromString, translated statement by statement
  (rules: translator_c01/main.go, nbr.go, str.go).  string = String (len = number of characters: Go strings are byte
  strings, so these definitions describe the Go code on ASCII strings), byte = UInt8, bytes.Buffer = List UInt8.
  Standard-library calls referred to BY NAME, i.e. NOT translated — their meaning is the helper defined below:
    fmt.Sprintf("%016x", x) = fmtHex16 x,  strings.TrimRight = trimRight,  strconv.FormatInt = formatInt,
    bytes.Buffer.WriteByte / .String = append to the byte list / bufString,  s[i] = strAt s i,  [4]CellID indexing = idx4.
-/
import S2.Generated.CellIDFns
set_option linter.unusedVariables false
namespace S2
namespace Generated
namespace CellIDStrFns
open S2.CellID (wordOfInt int64OfWord)
open CellIDFns (shl64 shr64)

/-- ` + "`fmt.Sprintf(\"%016x\", x)`" + ` for a uint64: 16 lower-case hexadecimal digits, zero-padded (by name). -/
def fmtHex16 (x : UInt64) : String := String.ofList (_root_.S2.CellID.hex16 x)
/-- ` + "`strings.TrimRight(s, cutset)`" + `: s without its longest suffix of characters contained in cutset (by name). -/
def trimRight (s cutset : String) : String :=
  String.ofList (s.toList.reverse.dropWhile (fun c => cutset.toList.contains c)).reverse
/-- ` + "`strconv.FormatInt(v, base)`" + `: sign and lower-case digits, no padding (by name). -/
def formatInt (v : Int) (base : Nat) : String :=
  if v < 0 then "-" ++ String.ofList (Nat.toDigits base v.natAbs) else String.ofList (Nat.toDigits base v.natAbs)
/-- ` + "`s[i]`" + ` on a string: the i-th byte (= the code of the i-th character for an ASCII string); Go panics for
    i ≥ len(s), here 0. -/
def strAt (s : String) (i : Nat) : UInt8 :=
  match s.toList[i]? with
  | some c => UInt8.ofNat c.toNat
  | none => 0
/-- ` + "`bytes.Buffer.String()`" + `: the bytes written, as a string (exact for ASCII bytes). -/
def bufString (b : List UInt8) : String := String.ofList (b.map fun x => Char.ofNat x.toNat)
/-- ` + "`a[k]`" + ` on a [4]CellID modelled as a 4-tuple; Go panics for k ≥ 4, here 0. -/
def idx4 (a : UInt64 × UInt64 × UInt64 × UInt64) (k : Nat) : UInt64 :=
  match k with
  | 0 => a.1 | 1 => a.2.1 | 2 => a.2.2.1 | 3 => a.2.2.2 | _ => 0

`

func genCellIDStr(pi *pkgInfo, facts *[]fact, emitted map[string]string) string {
	u := newUnit(pi, "CellIDStrFns", emitted)
	u.out.WriteString(strPrelude)
	u.section("tokens and strings (string = String, byte = UInt8; library calls by name, see the header)")
	u.fn("CellID.ToToken", fnOpt{strs: true})
	// String: the loop runs Level() <= MaxLevel times
	u.fn("CellID.String", fnOpt{strs: true, leanName: "CellID_String", fuel: []string{"CellIDFns.MaxLevel + 1"}})
	// CellIDFromString: `level := len(s) - 2` may be negative: Go int = Int; the loop runs len(s) - 2 times
	u.fn("CellIDFromString", fnOpt{strs: true, intAsInt: true, fuel: []string{"(s).toList.length"}})
	u.out.WriteString("end CellIDStrFns\nend Generated\nend S2\n")
	*facts = append(*facts, u.facts...)
	_ = strings.TrimSpace
	return u.out.String()
}
