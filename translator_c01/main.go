// Command translator_c01 re-reads <repo>/s2 (type-checked with go/types, constants evaluated with
// go/constant exactly as the compiler does) and emits, EXPRESSION BY EXPRESSION, Lean definitions of
//
//   - the scalar bit methods, constants and Hilbert tables of s2/cellid.go      -> CellIDFns.lean
//   - areSiblings and the range comparisons of s2/cellunion.go                  -> CellUnionFns.lean
//   - the error constants / test order of s2/predicates.go, r3.MaxPrec          -> PredConsts.lean
//   - the codec limits, zig-zag, interleave tables, siTitoPiQi                  -> CodecConsts.lean
//   - (face,i,j) <-> position, cross-face wrap, neighbours, CellIDFromToken      -> CellIDNbrFns.lean (nbr.go)
//   - ToToken, CellID.String, CellIDFromString                                   -> CellIDStrFns.lean (str.go)
//
// into <out>.  lean/S2Proofs/Ties/{C01,C01_Neighbors,C01_Strings,C11,C02,C09}.lean prove `hand-written model = generated definition`.
//
// Translation rules (uniform, not per function):
//
//	uint64, CellID            -> UInt64 (wrap-around + - *, &&& ||| ^^^ ~~~ ; `-x` is `0 - x`; `a &^ b` is `a &&& ~~~b`)
//	int, uint                 -> Nat   (the hand model's choice: levels, faces, table indices are non-negative;
//	                                    `a - b` is truncated subtraction; a negative int constant is refused)
//	int64                     -> Int   (exact; uint64<->int64 conversions are the two's-complement maps
//	                                    `int64OfWord` / `wordOfInt`, `%` is `Int.tmod`)
//	x << c, x >> c (uint64)   -> constant c < 64: `x <<< c`; constant c >= 64: 0; variable c: `shl64 x c` / `shr64 x c`
//	                             (= 0 when c >= 64, as in Go; Lean's own `<<<` would reduce c mod 64)
//	a < b ...                 -> `decide (a < b)` (Bool), or the bare proposition when it is the whole condition of an `if`
//	a == b, a != b            -> `a == b`, `a != b`
//	constant sub-expressions  -> folded to their value by go/types (what the compiler does)
//	x := e / x = e / x op= e  -> `let x : T := e` (shadowing), `if c { x = e }` -> `let x := if c then e else x`
//	var a [4]T; a[0] = e      -> four scalars a_0..a_3, `return a` -> the tuple
//	for ... { }               -> an auxiliary fuel-recursive function over the loop-carried variables
//
//	[]CellID, *CellUnion      -> Array UInt64 (`x[i]` = `x[i]!`, `len(x)` = `x.size`), `sort.Search` = the library's binary search
//	*big.Float (predicates)   -> Int: `newBigFloat().Sub/Mul(x, y)` exact at MaxPrec, `x.Sign()` = `sgn x`
//
// Functions outside this subset (return inside a loop, slices grown by append: lowerBound, CellUnionFromIntersection,
// CellID.String) are translated "by conditions": every if/for condition and loop initialiser, in source order, becomes
// a definition `<F>_cond<k>` / `<F>_init<k>` over its free variables, and the tie file states the hand model's step
// equation in terms of them.
//
// nbr.go (-> CellIDNbrFns.lean, ties in lean/S2Proofs/Ties/C01_Neighbors.lean) translates cellIDFromFaceIJ,
// faceIJOrientation, clampInt, cellIDFromFaceIJWrap, cellIDFromFaceIJSame, EdgeNeighbors, VertexNeighbors,
// AllNeighbors and CellIDFromToken in full, with the additional rules documented there (count-down loops as folds,
// named results, tuple assignment, composite literals / append, Go int as Int, float64 as the soft-float S2.F64,
// the stuv.go functions and strconv.ParseUint referred to by name).
//
// str.go (-> CellIDStrFns.lean, ties in lean/S2Proofs/Ties/C01_Strings.lean) translates ToToken, CellID.String and
// CellIDFromString in full (byte = UInt8, bytes.Buffer = List UInt8, string indexing, `return` inside a loop as an
// Except-valued loop function; fmt.Sprintf("%016x"), strings.TrimRight, strconv.FormatInt referred to by name).
//
// Anything else inside a function it is asked to translate is a fatal error (exit 1 with file:line).
// Output is a pure function of the source tree (fixed orders, no maps iterated).
//
// usage: translator_c01 -repo /repo -out lean/S2/Generated [-facts facts.json]
package main

import (
	"bytes"
	"crypto/sha256"
	"encoding/json"
	"flag"
	"fmt"
	"go/ast"
	"go/build"
	"go/constant"
	"go/importer"
	"go/parser"
	"go/printer"
	"go/token"
	"go/types"
	"math"
	"math/big"
	"os"
	"path/filepath"
	"sort"
	"strings"
)

// ---------------------------------------------------------------- loading

const modPrefix = "github.com/golang/geo/"

type loader struct {
	fset *token.FileSet
	repo string
	std  types.Importer
	pk   map[string]*pkgInfo
}

type pkgInfo struct {
	pkg   *types.Package
	info  *types.Info
	files []*ast.File
	names []string
}

func (m *loader) Import(path string) (*types.Package, error) {
	if strings.HasPrefix(path, modPrefix) {
		p, err := m.load(path)
		if err != nil {
			return nil, err
		}
		return p.pkg, nil
	}
	return m.std.Import(path)
}

func (m *loader) load(path string) (*pkgInfo, error) {
	if p, ok := m.pk[path]; ok {
		return p, nil
	}
	dir := filepath.Join(m.repo, strings.TrimPrefix(path, modPrefix))
	ctx := build.Default
	ctx.BuildTags = nil // hooks (`//go:build verif`) are not part of the translated source
	bp, err := ctx.ImportDir(dir, 0)
	if err != nil {
		return nil, err
	}
	pi := &pkgInfo{}
	names := append([]string{}, bp.GoFiles...)
	sort.Strings(names)
	for _, f := range names {
		af, err := parser.ParseFile(m.fset, filepath.Join(dir, f), nil, parser.ParseComments)
		if err != nil {
			return nil, err
		}
		pi.files = append(pi.files, af)
		pi.names = append(pi.names, f)
	}
	pi.info = &types.Info{
		Types:      map[ast.Expr]types.TypeAndValue{},
		Defs:       map[*ast.Ident]types.Object{},
		Uses:       map[*ast.Ident]types.Object{},
		Selections: map[*ast.SelectorExpr]*types.Selection{},
	}
	conf := types.Config{Importer: m}
	pi.pkg, err = conf.Check(path, m.fset, pi.files, pi.info)
	if err != nil {
		return nil, err
	}
	m.pk[path] = pi
	return pi, nil
}

// ---------------------------------------------------------------- errors / helpers

var fset = token.NewFileSet()
var repoRoot string

func relpos(p token.Pos) string {
	pos := fset.Position(p)
	if r, err := filepath.Rel(repoRoot, pos.Filename); err == nil {
		pos.Filename = r
	}
	return fmt.Sprintf("%s:%d:%d", pos.Filename, pos.Line, pos.Column)
}

func fatal(p token.Pos, format string, a ...interface{}) {
	fmt.Fprintf(os.Stderr, "translator_c01: %s: %s\n", relpos(p), fmt.Sprintf(format, a...))
	os.Exit(1)
}

func die(format string, a ...interface{}) {
	fmt.Fprintf(os.Stderr, "translator_c01: %s\n", fmt.Sprintf(format, a...))
	os.Exit(1)
}

func src(n ast.Node) string {
	var b bytes.Buffer
	printer.Fprint(&b, fset, n)
	return b.String()
}

func oneLine(n ast.Node) string {
	s := strings.Join(strings.Fields(src(n)), " ")
	s = strings.ReplaceAll(s, "-/", "- /")
	s = strings.ReplaceAll(s, "/-", "/ -")
	return s
}

func sha(s string) string {
	h := sha256.Sum256([]byte(s))
	return fmt.Sprintf("%x", h[:])
}

var leanKeywords = map[string]bool{"at": true, "from": true, "end": true, "fun": true, "show": true, "have": true, "open": true,
	"in": true, "then": true, "else": true, "if": true, "let": true, "do": true, "match": true, "with": true, "def": true,
	"theorem": true, "where": true, "by": true, "this": true, "variable": true, "section": true, "namespace": true, "instance": true,
	"structure": true, "class": true, "deriving": true, "mutual": true, "private": true, "protected": true, "export": true,
	"import": true, "return": true, "for": true, "nomatch": true, "Type": true, "Prop": true, "Sort": true, "t": true, "fuel": true}

func leanLocal(name string) string {
	if leanKeywords[name] {
		return name + "'"
	}
	return name
}

// ---------------------------------------------------------------- kinds

type kind int

const (
	kOther kind = iota
	kU64
	kNat
	kInt
	kBool
	kU32
	kBig // *big.Float at MaxPrec: exact, modelled as Int (scaled integers, see S2/Exact.lean)
	kF64 // float64: the bit-exact soft-float S2.F64 (only in the functions of nbr.go)
	kStr // string (only CellIDFromToken, nbr.go): Lean String, len(s) = number of characters (= bytes for ASCII)
	kU8  // byte (only in the string functions of str.go): UInt8, wrap-around + -
	kBuf // bytes.Buffer (only CellID.String, str.go): the list of bytes written so far, List UInt8
)

// intAsInt: translate Go int as Int (functions whose ints may be negative), set per function
var intAsInt bool

// strOK: string parameters are translated (nbr.go: CellIDFromToken)
var strOK bool

// floatOK: float64 is translated (soft-float S2.F64); set per function (nbr.go)
var floatOK bool

func isBigFloatPtr(t types.Type) bool {
	p, ok := t.(*types.Pointer)
	if !ok {
		return false
	}
	n, ok := p.Elem().(*types.Named)
	return ok && n.Obj().Pkg() != nil && n.Obj().Pkg().Path() == "math/big" && n.Obj().Name() == "Float"
}

func isPreciseVector(t types.Type) bool {
	n, ok := t.(*types.Named)
	return ok && n.Obj().Pkg() != nil && n.Obj().Pkg().Path() == modPrefix+"r3" && n.Obj().Name() == "PreciseVector"
}

// sliceOfU64 reports whether t is (a pointer to) a slice of uint64-like elements.
func sliceOfU64(t types.Type) bool {
	if p, ok := t.Underlying().(*types.Pointer); ok {
		t = p.Elem()
	}
	sl, ok := t.Underlying().(*types.Slice)
	return ok && kindOfType(sl.Elem()) == kU64
}

func kindOfType(t types.Type) kind {
	if t == nil {
		return kOther
	}
	if isBigFloatPtr(t) {
		return kBig
	}
	if b, ok := t.Underlying().(*types.Basic); ok {
		if intAsInt && (b.Kind() == types.Int || b.Kind() == types.UntypedInt) {
			return kInt
		}
		switch b.Kind() {
		case types.Uint64:
			return kU64
		case types.Uint32:
			return kU32
		case types.Int, types.Uint, types.UntypedInt:
			return kNat
		case types.Int64:
			return kInt
		case types.Bool, types.UntypedBool:
			return kBool
		case types.Float64, types.UntypedFloat:
			if floatOK {
				return kF64
			}
		case types.String, types.UntypedString:
			if strOK {
				return kStr
			}
		case types.Uint8, types.UntypedRune:
			if strOK {
				return kU8
			}
		}
	}
	if strOK && isBytesBuffer(t) {
		return kBuf
	}
	return kOther
}

func leanKind(k kind) string {
	switch k {
	case kU64:
		return "UInt64"
	case kU32:
		return "UInt32"
	case kNat:
		return "Nat"
	case kInt, kBig:
		return "Int"
	case kBool:
		return "Bool"
	case kF64:
		return "_root_.S2.F64"
	case kStr:
		return "String"
	case kU8:
		return "UInt8"
	case kBuf:
		return "List UInt8"
	}
	return ""
}

// ---------------------------------------------------------------- translator state

type unit struct {
	pi      *pkgInfo
	ns      string            // Lean namespace (short) of the file being written
	emitted map[string]string // Go key ("CellID.Next", "lsbForLevel") -> qualified Lean name
	globals map[string]string // package-level table variable -> qualified Lean name
	state   map[string]bool   // Go keys of state-passing (table writing) functions
	facts   []fact
	out     *strings.Builder
	aux     []string // auxiliary (loop) definitions to be written before the current def
}

type fact struct {
	Name   string `json:"name"`
	Kind   string `json:"kind"`
	Pos    string `json:"pos"`
	Lean   string `json:"lean"`
	Sha256 string `json:"sha256,omitempty"`
	Value  string `json:"value,omitempty"`
}

func (u *unit) typeOf(e ast.Expr) types.Type {
	tv, ok := u.pi.info.Types[e]
	if !ok {
		if id, ok := e.(*ast.Ident); ok {
			if o := u.pi.info.Uses[id]; o != nil {
				return o.Type()
			}
			if o := u.pi.info.Defs[id]; o != nil {
				return o.Type()
			}
		}
		fatal(e.Pos(), "no type information for %s", src(e))
	}
	return tv.Type
}

func (u *unit) kindOf(e ast.Expr) kind { return kindOfType(u.typeOf(e)) }

func (u *unit) constVal(e ast.Expr) constant.Value {
	if tv, ok := u.pi.info.Types[e]; ok && tv.Value != nil {
		return tv.Value
	}
	return nil
}

func (u *unit) leanType(p token.Pos, t types.Type) string {
	switch tt := t.(type) {
	case *types.Tuple:
		var parts []string
		for i := 0; i < tt.Len(); i++ {
			parts = append(parts, u.leanType(p, tt.At(i).Type()))
		}
		return strings.Join(parts, " × ")
	}
	switch tt := t.Underlying().(type) {
	case *types.Array:
		var parts []string
		for i := int64(0); i < tt.Len(); i++ {
			parts = append(parts, u.leanType(p, tt.Elem()))
		}
		return strings.Join(parts, " × ")
	}
	if s := leanKind(kindOfType(t)); s != "" {
		return s
	}
	if sliceOfU64(t) {
		return "Array UInt64"
	}
	if isPreciseVector(t) {
		return "_root_.S2.Exact.IV3"
	}
	if floatOK && isR3Vector(t) {
		return "_root_.S2.V3"
	}
	fatal(p, "unsupported type %s", t.String())
	return ""
}

// a literal of kind k with value v
func lit(p token.Pos, v constant.Value, k kind, hex bool) string {
	switch k {
	case kBool:
		if v.Kind() != constant.Bool {
			fatal(p, "constant %s is not a bool", v)
		}
		if constant.BoolVal(v) {
			return "true"
		}
		return "false"
	case kF64:
		return fmt.Sprintf("(⟨0x%016X⟩ : _root_.S2.F64)", f64bits(p, v))
	case kStr:
		return leanStringLit(p, v)
	}
	iv := constant.ToInt(v)
	if iv.Kind() != constant.Int {
		fatal(p, "constant %s is not an integer", v.ExactString())
	}
	bi, ok := new(big.Int).SetString(iv.ExactString(), 10)
	if !ok {
		fatal(p, "bad integer constant %s", iv.ExactString())
	}
	txt := bi.String()
	if hex && bi.Sign() >= 0 {
		txt = "0x" + bi.Text(16)
	}
	switch k {
	case kU64:
		if bi.Sign() < 0 || bi.BitLen() > 64 {
			fatal(p, "constant %s out of uint64 range", txt)
		}
		return "(" + txt + " : UInt64)"
	case kU32:
		if bi.Sign() < 0 || bi.BitLen() > 32 {
			fatal(p, "constant %s out of uint32 range", txt)
		}
		return "(" + txt + " : UInt32)"
	case kNat:
		if bi.Sign() < 0 {
			fatal(p, "negative int constant %s cannot be represented in the Nat model of Go int", txt)
		}
		return txt
	case kInt:
		return "(" + txt + " : Int)"
	case kU8:
		if bi.Sign() < 0 || bi.BitLen() > 8 {
			fatal(p, "constant %s out of byte range", txt)
		}
		return "(" + txt + " : UInt8)"
	}
	fatal(p, "constant %s of unsupported type", txt)
	return ""
}

func isHexLit(e ast.Expr) bool {
	for {
		if p, ok := e.(*ast.ParenExpr); ok {
			e = p.X
			continue
		}
		break
	}
	if b, ok := e.(*ast.BasicLit); ok {
		return strings.HasPrefix(b.Value, "0x") || strings.HasPrefix(b.Value, "0X")
	}
	return false
}

// ---------------------------------------------------------------- function environment

type env struct {
	u       *unit
	fd      *ast.FuncDecl
	name    string                 // Lean def name (unqualified)
	arrays  map[types.Object]int64 // locals declared `var a [n]T`: scalarised
	arrRows map[types.Object]bool  // locals holding a table row (Lean Array Nat)
	loop    *loopCtx
	nloops  int
	nfolds  int      // count-down loops translated as folds (need no fuel)
	fuel    []string // fuel expression per loop (in source order)
	stateFn bool     // state-passing function (writes the global tables)
	selfKey string
	named   []types.Object // named results (zero-initialised locals; a bare `return` yields their tuple)
	retType string         // Lean result type (single result), for Except-valued loops
}

type loopCtx struct {
	exc     bool // the body contains a `return`: the loop function is Except-valued (.error = returned value)
	carried []types.Object
	call    string // "Name_loopK captured…"
	post    ast.Stmt
}

func unparen(e ast.Expr) ast.Expr {
	for {
		p, ok := e.(*ast.ParenExpr)
		if !ok {
			return e
		}
		e = p.X
	}
}

func (e *env) obj(id *ast.Ident) types.Object {
	if o := e.u.pi.info.Uses[id]; o != nil {
		return o
	}
	if o := e.u.pi.info.Defs[id]; o != nil {
		return o
	}
	fatal(id.Pos(), "unresolved identifier %s", id.Name)
	return nil
}

// cond: the condition of an `if` — a bare order comparison stays a proposition, anything else is a Bool.
func (e *env) cond(x ast.Expr) string {
	if b, ok := unparen(x).(*ast.BinaryExpr); ok {
		switch b.Op {
		case token.LSS, token.LEQ, token.GTR, token.GEQ:
			return e.cmp(b)
		}
	}
	return e.expr(x)
}

var cmpSym = map[token.Token]string{token.LSS: "<", token.LEQ: "≤", token.GTR: ">", token.GEQ: "≥"}

func (e *env) cmp(b *ast.BinaryExpr) string {
	kx, ky := e.u.kindOf(b.X), e.u.kindOf(b.Y)
	if kx != ky || (kx != kU64 && kx != kNat && kx != kInt && kx != kU32 && kx != kU8) {
		fatal(b.Pos(), "comparison of unsupported operand types in %s", src(b))
	}
	return fmt.Sprintf("%s %s %s", e.expr(b.X), cmpSym[b.Op], e.expr(b.Y))
}

// shift count as a Nat expression (or a constant)
func (e *env) shiftCount(s ast.Expr) (string, *big.Int) {
	if v := e.u.constVal(s); v != nil {
		iv := constant.ToInt(v)
		bi, ok := new(big.Int).SetString(iv.ExactString(), 10)
		if !ok || bi.Sign() < 0 {
			fatal(s.Pos(), "bad constant shift count %s", src(s))
		}
		return bi.String(), bi
	}
	switch e.u.kindOf(s) {
	case kNat:
		return e.expr(s), nil
	case kU64:
		// uint64(e) with e : int — the count is e itself (Go's int is non-negative here and < 2^64)
		if c, ok := unparen(s).(*ast.CallExpr); ok && len(c.Args) == 1 {
			if tv, ok := e.u.pi.info.Types[c.Fun]; ok && tv.IsType() && e.u.kindOf(c.Args[0]) == kNat {
				return e.expr(c.Args[0]), nil
			}
		}
		return "(" + e.expr(s) + ").toNat", nil
	}
	fatal(s.Pos(), "unsupported shift count %s", src(s))
	return "", nil
}

func (e *env) binop(p token.Pos, op token.Token, X, Y ast.Expr, k kind, whole ast.Node) string {
	switch op {
	case token.SHL, token.SHR:
		x := e.expr(X)
		cnt, c := e.shiftCount(Y)
		switch k {
		case kNat:
			if op == token.SHL {
				return fmt.Sprintf("(%s <<< %s)", x, cnt)
			}
			return fmt.Sprintf("(%s >>> %s)", x, cnt)
		case kU64:
			if c != nil {
				if c.Cmp(big.NewInt(64)) >= 0 {
					return "(0 : UInt64)"
				}
				if op == token.SHL {
					return fmt.Sprintf("(%s <<< (%s : UInt64))", x, cnt)
				}
				return fmt.Sprintf("(%s >>> (%s : UInt64))", x, cnt)
			}
			if op == token.SHL {
				return fmt.Sprintf("(shl64 %s %s)", x, cnt)
			}
			return fmt.Sprintf("(shr64 %s %s)", x, cnt)
		case kInt:
			// Go int (64-bit two's complement) modelled as Int: `x << c` is x * 2^c (no overflow: see nbr.go)
			if op == token.SHL && intAsInt {
				return fmt.Sprintf("(ishl %s %s)", e.atom(X), cnt)
			}
		case kU32:
			if c != nil && c.Cmp(big.NewInt(32)) < 0 {
				if op == token.SHL {
					return fmt.Sprintf("(%s <<< (%s : UInt32))", x, cnt)
				}
				return fmt.Sprintf("(%s >>> (%s : UInt32))", x, cnt)
			}
		}
		fatal(p, "unsupported shift %s", src(whole))
	}
	kx, ky := e.u.kindOf(X), e.u.kindOf(Y)
	if kx != ky {
		fatal(p, "operands of different kinds in %s", src(whole))
	}
	x, y := e.expr(X), e.expr(Y)
	switch op {
	case token.LAND:
		return fmt.Sprintf("(%s && %s)", x, y)
	case token.LOR:
		return fmt.Sprintf("(%s || %s)", x, y)
	case token.EQL:
		return fmt.Sprintf("(%s == %s)", x, y)
	case token.NEQ:
		return fmt.Sprintf("(%s != %s)", x, y)
	case token.LSS, token.LEQ, token.GTR, token.GEQ:
		if kx != kU64 && kx != kNat && kx != kInt && kx != kU32 && kx != kU8 {
			fatal(p, "comparison of unsupported operand types in %s", src(whole))
		}
		return fmt.Sprintf("decide (%s %s %s)", x, cmpSym[op], y)
	}
	if k == kF64 {
		// IEEE binary64 operations of the soft-float model (round to nearest even, bit-exact)
		if sym, ok := map[token.Token]string{token.ADD: "+", token.SUB: "-", token.MUL: "*", token.QUO: "/"}[op]; ok {
			return fmt.Sprintf("(%s %s %s)", x, sym, y)
		}
		fatal(p, "unsupported float operator %s in %s", op, src(whole))
	}
	if k == kStr && op == token.ADD {
		return fmt.Sprintf("(%s ++ %s)", x, y) // string concatenation
	}
	if k == kU8 && op != token.ADD && op != token.SUB {
		fatal(p, "unsupported byte operator %s in %s", op, src(whole))
	}
	if k != kU64 && k != kNat && k != kInt && k != kU32 && k != kU8 {
		fatal(p, "arithmetic on unsupported type in %s", src(whole))
	}
	if k == kNat && op == token.SUB {
		// truncated subtraction: documented deviation of the Nat model
	}
	switch op {
	case token.ADD:
		return fmt.Sprintf("(%s + %s)", x, y)
	case token.SUB:
		return fmt.Sprintf("(%s - %s)", x, y)
	case token.MUL:
		return fmt.Sprintf("(%s * %s)", x, y)
	case token.REM:
		if k == kInt {
			return fmt.Sprintf("(Int.tmod %s %s)", x, y)
		}
		return fmt.Sprintf("(%s %% %s)", x, y)
	case token.QUO:
		if k == kNat {
			return fmt.Sprintf("(%s / %s)", x, y)
		}
	case token.AND:
		if k != kInt {
			return fmt.Sprintf("(%s &&& %s)", x, y)
		}
		if intAsInt {
			return fmt.Sprintf("(iand %s %s)", e.atom(X), e.atom(Y))
		}
	case token.OR:
		if k != kInt {
			return fmt.Sprintf("(%s ||| %s)", x, y)
		}
	case token.XOR:
		if k != kInt {
			return fmt.Sprintf("(%s ^^^ %s)", x, y)
		}
	case token.AND_NOT:
		if k == kU64 || k == kU32 {
			return fmt.Sprintf("(%s &&& (~~~%s))", x, y)
		}
	}
	fatal(p, "unsupported operator %s in %s", op, src(whole))
	return ""
}

func (e *env) conv(c *ast.CallExpr) string {
	to := e.u.kindOf(c)
	from := e.u.kindOf(c.Args[0])
	x := e.expr(c.Args[0])
	switch {
	case to == from && to != kOther:
		return x
	case to == kU64 && from == kNat:
		return fmt.Sprintf("(UInt64.ofNat %s)", x)
	case to == kU64 && from == kInt:
		return fmt.Sprintf("(wordOfInt %s)", x)
	case to == kU64 && from == kU32:
		return fmt.Sprintf("(%s).toUInt64", x)
	case to == kU32 && from == kU64:
		return fmt.Sprintf("(%s).toUInt32", x)
	case to == kU32 && from == kNat:
		return fmt.Sprintf("(UInt32.ofNat %s)", x)
	case to == kNat && from == kU64:
		return fmt.Sprintf("(%s).toNat", x)
	case to == kNat && from == kU32:
		return fmt.Sprintf("(%s).toNat", x)
	case to == kInt && from == kU64:
		return fmt.Sprintf("(int64OfWord %s)", x)
	case to == kInt && from == kNat:
		return fmt.Sprintf("(Int.ofNat %s)", x)
	case to == kInt && from == kU8:
		return fmt.Sprintf("(Int.ofNat (%s).toNat)", x)
	case to == kNat && from == kU8:
		return fmt.Sprintf("(%s).toNat", x)
	case to == kF64 && from == kInt:
		return fmt.Sprintf("(_root_.S2.F64.ofInt %s)", x)
	case to == kF64 && from == kNat:
		return fmt.Sprintf("(_root_.S2.F64.ofNat %s)", x)
	}
	fatal(c.Pos(), "unsupported conversion %s", src(c))
	return ""
}

func tupleProj(x string, i, n int64) string {
	s := x
	for k := int64(0); k < i; k++ {
		s += ".2"
	}
	if i < n-1 {
		s += ".1"
	}
	return s
}

// external (standard library) functions with a fixed Lean meaning
var externs = map[string]string{
	"math/bits.TrailingZeros64": "_root_.S2.CellID.trailingZeros",
	"math/bits.LeadingZeros64":  "leadingZeros64",
	"sort.Search":               "sortSearch",
}

// call translates a call used as a single value.  A Nat-modelled int result of a callee is cast to Int
// when the calling function models its ints as Int (see callFull).
func (e *env) call(c *ast.CallExpr) string {
	s, natRes := e.callFull(c)
	switch {
	case len(natRes) == 1 && natRes[0]:
		return "(Int.ofNat " + s + ")"
	case len(natRes) > 1:
		for _, b := range natRes {
			if b {
				fatal(c.Pos(), "tuple-valued call with Nat-modelled int results used as a single value: %s", src(c))
			}
		}
	}
	return s
}

// isGoInt reports whether t is Go's `int`.
func isGoInt(t types.Type) bool {
	b, ok := t.Underlying().(*types.Basic)
	return ok && b.Kind() == types.Int
}

// fnIntMode: Go key of a translated function -> its ints are modelled as Int (otherwise Nat)
var fnIntMode = map[string]bool{}

// callFull translates a call and reports, per result, whether the callee models that Go int result as Nat
// while the caller models ints as Int (the caller then casts with Int.ofNat).  Symmetrically an Int argument
// passed to a Nat-modelled int parameter is cast with Int.toNat — exact when the argument is non-negative,
// which is the callee's contract (faces, levels, in-range i/j); the hand models make the same cast.
func (e *env) callFull(c *ast.CallExpr) (string, []bool) {
	info := e.u.pi.info
	if tv, ok := info.Types[c.Fun]; ok && tv.IsType() {
		if len(c.Args) != 1 {
			fatal(c.Pos(), "conversion with %d arguments", len(c.Args))
		}
		return e.conv(c), nil
	}
	var key string
	var args []string
	var fobj *types.Func
	switch f := unparen(c.Fun).(type) {
	case *ast.Ident:
		if b, ok := info.Uses[f].(*types.Builtin); ok && b.Name() == "len" && len(c.Args) == 1 && sliceOfU64(e.u.typeOf(c.Args[0])) {
			return "(" + e.atom(c.Args[0]) + ").size", nil
		}
		if b, ok := info.Uses[f].(*types.Builtin); ok && b.Name() == "len" && len(c.Args) == 1 && e.u.kindOf(c.Args[0]) == kStr {
			if intAsInt {
				return "(Int.ofNat (" + e.atom(c.Args[0]) + ").toList.length)", nil
			}
			return "(" + e.atom(c.Args[0]) + ").toList.length", nil
		}
		if b, ok := info.Uses[f].(*types.Builtin); ok && b.Name() == "append" && len(c.Args) == 2 && !c.Ellipsis.IsValid() && sliceOfU64(e.u.typeOf(c.Args[0])) {
			// append(s, x) on a []CellID value that is only ever rebound (`s = append(s, x)`): Array.push
			return "(" + e.atom(c.Args[0]) + ".push " + e.atom(c.Args[1]) + ")", nil
		}
		fn, ok := info.Uses[f].(*types.Func)
		if !ok || fn.Pkg() != e.u.pi.pkg {
			fatal(c.Pos(), "call of unsupported function %s", src(c.Fun))
		}
		if fn.Name() == "newBigFloat" {
			fatal(c.Pos(), "newBigFloat() used as a value")
		}
		key = fn.Name()
		fobj = fn
		if ex, ok := pkgExterns[key]; ok && floatOK && intAsInt {
			return e.externCall(c, fn, ex)
		}
	case *ast.SelectorExpr:
		if sel, ok := info.Selections[f]; ok {
			if sel.Kind() != types.MethodVal {
				fatal(c.Pos(), "unsupported selector call %s", src(c))
			}
			if isBigFloatPtr(sel.Recv()) {
				return e.bigCall(c, f), nil
			}
			if strOK && isBytesBuffer(sel.Recv()) {
				return e.bufCall(c, f), nil
			}
			rt := sel.Recv()
			if p, ok := rt.(*types.Pointer); ok {
				rt = p.Elem()
			}
			nt, ok := rt.(*types.Named)
			if !ok {
				fatal(c.Pos(), "method call on unnamed type in %s", src(c))
			}
			key = nt.Obj().Name() + "." + sel.Obj().Name()
			args = append(args, e.atom(f.X))
			fobj, _ = sel.Obj().(*types.Func)
		} else if fn, ok := info.Uses[f.Sel].(*types.Func); ok && fn.Pkg() != nil {
			q := fn.Pkg().Path() + "." + fn.Name()
			if floatOK {
				if s, ok := e.mathCall(c, q); ok {
					return s, nil
				}
			}
			if strOK {
				if s, ok := e.strLibCall(c, q); ok {
					return s, nil
				}
			}
			ln, ok := externs[q]
			if !ok {
				fatal(c.Pos(), "call of unsupported external function %s", q)
			}
			for _, a := range c.Args {
				args = append(args, e.atom(a))
			}
			return "(" + ln + " " + strings.Join(args, " ") + ")", nil
		} else {
			fatal(c.Pos(), "unsupported call %s", src(c))
		}
	default:
		fatal(c.Pos(), "unsupported call %s", src(c))
	}
	ln, ok := e.u.emitted[key]
	if !ok {
		fatal(c.Pos(), "call of %s, which is not (yet) translated", key)
	}
	if e.u.state[key] {
		fatal(c.Pos(), "state-passing function %s called inside an expression", key)
	}
	calleeInt := fnIntMode[key]
	if calleeInt && !intAsInt {
		fatal(c.Pos(), "call of %s (ints modelled as Int) from a function whose ints are modelled as Nat", key)
	}
	cast := intAsInt && !calleeInt && fobj != nil
	var sig *types.Signature
	if cast {
		sig = fobj.Type().(*types.Signature)
	}
	for i, a := range c.Args {
		s := e.atom(a)
		if cast && i < sig.Params().Len() && isGoInt(sig.Params().At(i).Type()) {
			s = "(Int.toNat " + s + ")"
		}
		args = append(args, s)
	}
	var natRes []bool
	if cast {
		for i := 0; i < sig.Results().Len(); i++ {
			natRes = append(natRes, isGoInt(sig.Results().At(i).Type()))
		}
	}
	return "(" + ln + " " + strings.Join(args, " ") + ")", natRes
}

// bigCall: the *big.Float operations of the exact predicates.  `newBigFloat().Op(x, y)` is exact at MaxPrec
// (see S2/Exact.lean), so it is the integer operation; `x.Sign()` is `sgn x`.
func (e *env) bigCall(c *ast.CallExpr, f *ast.SelectorExpr) string {
	fresh := func() {
		rc, ok := unparen(f.X).(*ast.CallExpr)
		if ok {
			if id, ok := unparen(rc.Fun).(*ast.Ident); ok && id.Name == "newBigFloat" && len(rc.Args) == 0 {
				return
			}
		}
		fatal(c.Pos(), "big.Float operation whose receiver is not a fresh newBigFloat(): %s", src(c))
	}
	switch f.Sel.Name {
	case "Sign":
		if len(c.Args) != 0 {
			fatal(c.Pos(), "unsupported %s", src(c))
		}
		if !intAsInt {
			fatal(c.Pos(), "Sign() in a function whose ints are modelled as Nat")
		}
		return "(_root_.S2.Exact.sgn " + e.atom(f.X) + ")"
	case "Sub", "Mul", "Add":
		fresh()
		if len(c.Args) != 2 {
			fatal(c.Pos(), "unsupported %s", src(c))
		}
		op := map[string]string{"Sub": "-", "Mul": "*", "Add": "+"}[f.Sel.Name]
		return fmt.Sprintf("(%s %s %s)", e.expr(c.Args[0]), op, e.expr(c.Args[1]))
	}
	fatal(c.Pos(), "unsupported big.Float method %s", f.Sel.Name)
	return ""
}

func (e *env) atom(x ast.Expr) string {
	s := e.expr(x)
	if strings.ContainsAny(s, " ") && !(strings.HasPrefix(s, "(") && balanced(s)) {
		return "(" + s + ")"
	}
	return s
}

// balanced reports whether the opening parenthesis at s[0] closes at the very end of s.
func balanced(s string) bool {
	d := 0
	for i, r := range s {
		switch r {
		case '(':
			d++
		case ')':
			d--
			if d == 0 && i != len(s)-1 {
				return false
			}
		}
	}
	return d == 0
}

func (e *env) expr(x ast.Expr) string {
	u := e.u
	if v := u.constVal(x); v != nil {
		k := u.kindOf(x)
		if k == kOther {
			fatal(x.Pos(), "constant %s of unsupported type %s", src(x), u.typeOf(x))
		}
		return lit(x.Pos(), v, k, isHexLit(x))
	}
	switch v := x.(type) {
	case *ast.ParenExpr:
		return e.expr(v.X)
	case *ast.Ident:
		o := e.obj(v)
		switch ov := o.(type) {
		case *types.Var:
			if ov.Parent() == u.pi.pkg.Scope() {
				if g, ok := u.globals[ov.Name()]; ok {
					return g
				}
				fatal(x.Pos(), "use of package variable %s, which is not translated", ov.Name())
			}
			if _, ok := e.arrays[o]; ok {
				fatal(x.Pos(), "array local %s used as a value", v.Name)
			}
			return leanLocal(v.Name)
		}
		fatal(x.Pos(), "unsupported identifier %s", v.Name)
	case *ast.CompositeLit:
		// [n]CellID{…} -> the tuple (as for `var a [n]T`), []CellID{…} -> #[…]
		var parts []string
		for _, el := range v.Elts {
			if _, ok := el.(*ast.KeyValueExpr); ok {
				fatal(el.Pos(), "keyed element in composite literal")
			}
			parts = append(parts, e.expr(el))
		}
		switch tt := u.typeOf(x).Underlying().(type) {
		case *types.Array:
			if kindOfType(tt.Elem()) == kU64 && int64(len(parts)) == tt.Len() && len(parts) >= 2 {
				return "(" + strings.Join(parts, ", ") + ")"
			}
		case *types.Slice:
			if kindOfType(tt.Elem()) == kU64 {
				return "(#[" + strings.Join(parts, ", ") + "] : Array UInt64)"
			}
		}
		fatal(x.Pos(), "unsupported composite literal %s", oneLine(x))
	case *ast.UnaryExpr:
		k := u.kindOf(x)
		switch v.Op {
		case token.SUB:
			switch k {
			case kU64:
				return fmt.Sprintf("((0 : UInt64) - %s)", e.expr(v.X))
			case kInt, kF64:
				return fmt.Sprintf("(- %s)", e.atom(v.X))
			}
			fatal(x.Pos(), "unary minus on Go int (Nat model) in %s", src(x))
		case token.XOR:
			if k == kU64 || k == kU32 {
				return fmt.Sprintf("(~~~%s)", e.expr(v.X))
			}
		case token.NOT:
			return fmt.Sprintf("(!%s)", e.expr(v.X))
		case token.ADD:
			return e.expr(v.X)
		}
		fatal(x.Pos(), "unsupported unary operator in %s", src(x))
	case *ast.BinaryExpr:
		return e.binop(v.Pos(), v.Op, v.X, v.Y, u.kindOf(x), x)
	case *ast.CallExpr:
		return e.call(v)
	case *ast.StarExpr:
		if sliceOfU64(u.typeOf(v.X)) {
			return e.expr(v.X)
		}
		fatal(x.Pos(), "unsupported dereference %s", src(x))
	case *ast.SelectorExpr:
		if sel, ok := u.pi.info.Selections[v]; ok && sel.Kind() == types.FieldVal && isPreciseVector(sel.Recv()) {
			switch v.Sel.Name {
			case "X", "Y", "Z":
				return e.atom(v.X) + "." + strings.ToLower(v.Sel.Name)
			}
		}
		fatal(x.Pos(), "unsupported selector %s", src(x))
	case *ast.FuncLit:
		// func(i T) R { return e }
		if len(v.Body.List) != 1 || v.Type.Params == nil {
			fatal(x.Pos(), "unsupported function literal %s", oneLine(x))
		}
		ret, ok := v.Body.List[0].(*ast.ReturnStmt)
		if !ok || len(ret.Results) != 1 {
			fatal(x.Pos(), "unsupported function literal %s", oneLine(x))
		}
		var ps []string
		for _, f := range v.Type.Params.List {
			for _, n := range f.Names {
				ps = append(ps, fmt.Sprintf("(%s : %s)", leanLocal(n.Name), u.leanType(n.Pos(), u.pi.info.Defs[n].Type())))
			}
		}
		return fmt.Sprintf("(fun %s => %s)", strings.Join(ps, " "), e.expr(ret.Results[0]))
	case *ast.IndexExpr:
		iv := u.constVal(v.Index)
		// scalarised local array
		if id, ok := unparen(v.X).(*ast.Ident); ok {
			o := e.obj(id)
			if n, ok := e.arrays[o]; ok {
				if iv == nil {
					fatal(x.Pos(), "non-constant index into local array %s", id.Name)
				}
				i, _ := constant.Int64Val(iv)
				if i < 0 || i >= n {
					fatal(x.Pos(), "index out of range in %s", src(x))
				}
				return fmt.Sprintf("%s_%d", leanLocal(id.Name), i)
			}
		}
		if s, ok := e.strIndex(v); ok {
			return s
		}
		// call returning an array: projection of the tuple
		if c, ok := unparen(v.X).(*ast.CallExpr); ok {
			at, ok := u.typeOf(c).Underlying().(*types.Array)
			if ok && iv == nil && strOK {
				return e.varIndex4(v, c, at)
			}
			if !ok || iv == nil {
				fatal(x.Pos(), "unsupported index expression %s", src(x))
			}
			i, _ := constant.Int64Val(iv)
			if i < 0 || i >= at.Len() {
				fatal(x.Pos(), "index out of range in %s", src(x))
			}
			return tupleProj(e.expr(c), i, at.Len())
		}
		if sliceOfU64(u.typeOf(v.X)) {
			if u.kindOf(v.Index) != kNat {
				fatal(x.Pos(), "slice index of unsupported type in %s", src(x))
			}
			return fmt.Sprintf("%s[%s]!", e.atom(v.X), e.expr(v.Index))
		}
		// table / table row
		if _, ok := u.typeOf(v.X).Underlying().(*types.Array); ok {
			if u.kindOf(v.Index) != kNat {
				fatal(x.Pos(), "table index of unsupported type in %s", src(x))
			}
			return fmt.Sprintf("%s[%s]!", e.atom(v.X), e.expr(v.Index))
		}
		fatal(x.Pos(), "unsupported index expression %s", src(x))
	}
	fatal(x.Pos(), "unsupported expression %s (%T)", src(x), x)
	return ""
}

// ---------------------------------------------------------------- statements

func terminates(list []ast.Stmt) bool {
	if len(list) == 0 {
		return false
	}
	switch s := list[len(list)-1].(type) {
	case *ast.ReturnStmt:
		return true
	case *ast.BranchStmt:
		return s.Tok == token.BREAK || s.Tok == token.CONTINUE
	case *ast.IfStmt:
		if s.Else == nil {
			return false
		}
		switch el := s.Else.(type) {
		case *ast.BlockStmt:
			return terminates(s.Body.List) && terminates(el.List)
		case *ast.IfStmt:
			return terminates(s.Body.List) && terminates([]ast.Stmt{el})
		}
	case *ast.BlockStmt:
		return terminates(s.List)
	}
	return false
}

// assigned collects, in first-assignment order, the variables declared outside [lo,hi) that are assigned in n.
func (e *env) assigned(n ast.Node, lo, hi token.Pos) []types.Object {
	var res []types.Object
	seen := map[types.Object]bool{}
	add := func(x ast.Expr) {
		x = unparen(x)
		if ix, ok := x.(*ast.IndexExpr); ok {
			x = unparen(ix.X)
		}
		id, ok := x.(*ast.Ident)
		if !ok {
			fatal(x.Pos(), "assignment to unsupported target %s", src(x))
		}
		if id.Name == "_" {
			return
		}
		o := e.u.pi.info.Uses[id]
		if o == nil {
			return // a definition (:=) inside n
		}
		if v, ok := o.(*types.Var); ok && v.Parent() == e.u.pi.pkg.Scope() {
			return // global table: handled by the state
		}
		if o.Pos() >= lo && o.Pos() < hi {
			return
		}
		if !seen[o] {
			seen[o] = true
			res = append(res, o)
		}
	}
	ast.Inspect(n, func(x ast.Node) bool {
		switch s := x.(type) {
		case *ast.AssignStmt:
			for _, l := range s.Lhs {
				add(l)
			}
		case *ast.IncDecStmt:
			add(s.X)
		case *ast.ExprStmt:
			if id := e.bufWriteTarget(s.X); id != nil {
				add(id)
			}
		}
		return true
	})
	return res
}

func (e *env) localType(o types.Object) string {
	return e.u.leanType(o.Pos(), o.Type())
}

func (e *env) tupleOf(vs []types.Object) (val, typ string) {
	var ns, ts []string
	for _, o := range vs {
		ns = append(ns, leanLocal(o.Name()))
		ts = append(ts, e.localType(o))
	}
	if len(vs) == 1 {
		return ns[0], ts[0]
	}
	return "(" + strings.Join(ns, ", ") + ")", strings.Join(ts, " × ")
}

// bindTuple emits `let`s that rebind the variables vs from the value `rhs` (given as lines).
func (e *env) bindTuple(vs []types.Object, rhs string, ind string) string {
	_, typ := e.tupleOf(vs)
	if len(vs) == 1 {
		return fmt.Sprintf("%slet %s : %s :=\n%s\n", ind, leanLocal(vs[0].Name()), typ, rhs)
	}
	s := fmt.Sprintf("%slet r' : %s :=\n%s\n", ind, typ, rhs)
	for i, o := range vs {
		s += fmt.Sprintf("%slet %s : %s := %s\n", ind, leanLocal(o.Name()), e.localType(o), tupleProj("r'", int64(i), int64(len(vs))))
	}
	return s
}

type fallFn func(ind string) string

// seq translates a statement list into a Lean term (lines, each indented by at least ind, no trailing newline).
func (e *env) seq(list []ast.Stmt, ind string, fall fallFn, end token.Pos) string {
	if len(list) == 0 {
		if fall == nil {
			fatal(end, "control falls off the end of the function body")
		}
		return fall(ind)
	}
	st, rest := list[0], list[1:]
	k := func(ind string) string { return e.seq(rest, ind, fall, end) }
	u := e.u
	switch v := st.(type) {
	case *ast.ReturnStmt:
		if e.loop != nil {
			// return inside a loop whose function is Except-valued (forStmt): `.error value`
			if !e.loop.exc || len(v.Results) != 1 || len(rest) != 0 {
				fatal(st.Pos(), "return inside a loop is not supported")
			}
			return ind + ".error " + e.atom(v.Results[0])
		}
		if len(rest) != 0 {
			fatal(rest[0].Pos(), "statement after return")
		}
		if e.stateFn {
			if len(v.Results) != 0 {
				fatal(st.Pos(), "state-passing function returns a value")
			}
			return ind + "t"
		}
		switch len(v.Results) {
		case 0:
			if len(e.named) < 2 {
				fatal(st.Pos(), "bare return without (two or more) named results is not supported")
			}
			var parts []string
			for _, o := range e.named {
				parts = append(parts, leanLocal(o.Name()))
			}
			return ind + "(" + strings.Join(parts, ", ") + ")"
		case 1:
			r := unparen(v.Results[0])
			if id, ok := r.(*ast.Ident); ok {
				if _, isNil := e.obj(id).(*types.Nil); isNil {
					// `return nil` from a function returning []CellID: the empty slice (callers observe len/range only)
					res := u.pi.info.Defs[e.fd.Name].(*types.Func).Type().(*types.Signature).Results()
					if res.Len() == 1 && sliceOfU64(res.At(0).Type()) {
						return ind + "(#[] : Array UInt64)"
					}
					fatal(st.Pos(), "return nil of unsupported type")
				}
				if n, ok := e.arrays[e.obj(id)]; ok {
					var parts []string
					for i := int64(0); i < n; i++ {
						parts = append(parts, fmt.Sprintf("%s_%d", leanLocal(id.Name), i))
					}
					return ind + "(" + strings.Join(parts, ", ") + ")"
				}
			}
			return ind + e.expr(v.Results[0])
		}
		var parts []string
		for _, r := range v.Results {
			parts = append(parts, e.expr(r))
		}
		return ind + "(" + strings.Join(parts, ", ") + ")"

	case *ast.BranchStmt:
		if e.loop == nil || v.Label != nil {
			fatal(st.Pos(), "unsupported branch statement %s", src(st))
		}
		if len(rest) != 0 {
			fatal(rest[0].Pos(), "statement after %s", v.Tok)
		}
		switch v.Tok {
		case token.BREAK:
			val, _ := e.tupleOf(e.loop.carried)
			if e.loop.exc {
				return ind + ".ok " + val
			}
			return ind + val
		case token.CONTINUE:
			return e.loopNext(ind)
		}
		fatal(st.Pos(), "unsupported branch statement %s", src(st))

	case *ast.BlockStmt:
		return e.seq(append(append([]ast.Stmt{}, v.List...), rest...), ind, fall, end)

	case *ast.DeclStmt:
		gd, ok := v.Decl.(*ast.GenDecl)
		if ok && gd.Tok == token.CONST {
			return k(ind) // local constants are folded at their uses
		}
		if !ok || gd.Tok != token.VAR {
			fatal(st.Pos(), "unsupported declaration %s", src(st))
		}
		out := ""
		for _, sp := range gd.Specs {
			vs := sp.(*ast.ValueSpec)
			for i, n := range vs.Names {
				o := u.pi.info.Defs[n]
				if at, ok := o.Type().Underlying().(*types.Array); ok && len(vs.Values) == 0 {
					k := kindOfType(at.Elem())
					if k != kU64 && k != kNat && k != kInt {
						fatal(st.Pos(), "unsupported local array element type in %s", src(st))
					}
					e.arrays[o] = at.Len()
					for j := int64(0); j < at.Len(); j++ {
						out += fmt.Sprintf("%slet %s_%d : %s := 0\n", ind, leanLocal(n.Name), j, leanKind(k))
					}
					continue
				}
				ty := e.localType(o)
				if len(vs.Values) == 0 {
					zero := "0"
					if kindOfType(o.Type()) == kBool {
						zero = "false"
					} else if sliceOfU64(o.Type()) {
						zero = "#[]"
					} else if kindOfType(o.Type()) == kBuf {
						zero = "[]" // var b bytes.Buffer: nothing written yet
					} else if k := kindOfType(o.Type()); k != kU64 && k != kNat && k != kInt && k != kU32 {
						fatal(st.Pos(), "zero value of unsupported type in %s", src(st))
					}
					out += fmt.Sprintf("%slet %s : %s := %s\n", ind, leanLocal(n.Name), ty, zero)
				} else if len(vs.Values) == len(vs.Names) {
					out += fmt.Sprintf("%slet %s : %s := %s\n", ind, leanLocal(n.Name), ty, e.expr(vs.Values[i]))
				} else {
					fatal(st.Pos(), "unsupported declaration %s", src(st))
				}
			}
		}
		return out + k(ind)

	case *ast.IncDecStmt:
		id, ok := unparen(v.X).(*ast.Ident)
		if !ok {
			fatal(st.Pos(), "unsupported %s", src(st))
		}
		o := e.obj(id)
		kk := kindOfType(o.Type())
		if kk != kU64 && kk != kNat && kk != kInt {
			fatal(st.Pos(), "unsupported %s", src(st))
		}
		op := "+"
		if v.Tok == token.DEC {
			op = "-"
		}
		one := lit(st.Pos(), constant.MakeInt64(1), kk, false)
		return fmt.Sprintf("%slet %s : %s := (%s %s %s)\n", ind, leanLocal(id.Name), e.localType(o), leanLocal(id.Name), op, one) + k(ind)

	case *ast.AssignStmt:
		if s, ok := e.parseUintMatch(v, rest, ind, fall, end); ok {
			return s
		}
		return e.assign(v, ind) + k(ind)

	case *ast.ExprStmt:
		c, ok := v.X.(*ast.CallExpr)
		if !ok {
			fatal(st.Pos(), "unsupported statement %s", src(st))
		}
		if s, ok := e.bufWrite(c, ind); ok {
			return s + k(ind)
		}
		return e.stateCall(c, ind) + k(ind)

	case *ast.IfStmt:
		return e.ifStmt(v, ind, k, rest)

	case *ast.ForStmt:
		if hasReturn(v.Body) {
			return e.forStmt(v, ind, k)
		}
		return e.forStmt(v, ind, nil) + k(ind)
	}
	fatal(st.Pos(), "unsupported statement %s", src(st))
	return ""
}

var assignOps = map[token.Token]token.Token{token.ADD_ASSIGN: token.ADD, token.SUB_ASSIGN: token.SUB, token.MUL_ASSIGN: token.MUL,
	token.REM_ASSIGN: token.REM, token.AND_ASSIGN: token.AND, token.OR_ASSIGN: token.OR, token.XOR_ASSIGN: token.XOR,
	token.SHL_ASSIGN: token.SHL, token.SHR_ASSIGN: token.SHR, token.AND_NOT_ASSIGN: token.AND_NOT, token.QUO_ASSIGN: token.QUO}

func (e *env) assign(v *ast.AssignStmt, ind string) string {
	u := e.u
	if len(v.Lhs) > 1 && len(v.Rhs) == 1 && (v.Tok == token.DEFINE || v.Tok == token.ASSIGN) {
		if c, ok := unparen(v.Rhs[0]).(*ast.CallExpr); ok {
			return e.assignTuple(v, c, ind)
		}
	}
	if len(v.Lhs) != 1 || len(v.Rhs) != 1 {
		fatal(v.Pos(), "unsupported multiple assignment %s", src(v))
	}
	lhs := unparen(v.Lhs[0])
	// the right-hand side
	rhs := func(target ast.Expr) string {
		if v.Tok == token.DEFINE || v.Tok == token.ASSIGN {
			return e.expr(v.Rhs[0])
		}
		op, ok := assignOps[v.Tok]
		if !ok {
			fatal(v.Pos(), "unsupported assignment operator in %s", src(v))
		}
		return e.binop(v.Pos(), op, target, v.Rhs[0], u.kindOf(target), v)
	}
	switch l := lhs.(type) {
	case *ast.Ident:
		if l.Name == "_" {
			fatal(v.Pos(), "assignment to _")
		}
		o := e.obj(l)
		if ov, ok := o.(*types.Var); ok && ov.Parent() == u.pi.pkg.Scope() {
			fatal(v.Pos(), "assignment to package variable %s", l.Name)
		}
		if _, ok := o.Type().Underlying().(*types.Array); ok {
			// a table row: `r := posToIJ[orientation]`
			at := o.Type().Underlying().(*types.Array)
			if kindOfType(at.Elem()) != kNat || v.Tok != token.DEFINE {
				fatal(v.Pos(), "unsupported array assignment %s", src(v))
			}
			return fmt.Sprintf("%slet %s : Array Nat := %s\n", ind, leanLocal(l.Name), e.expr(v.Rhs[0]))
		}
		if v.Tok == token.DEFINE {
			e.checkShadow(l)
		}
		return fmt.Sprintf("%slet %s : %s := %s\n", ind, leanLocal(l.Name), e.localType(o), rhs(lhs))
	case *ast.IndexExpr:
		id, ok := unparen(l.X).(*ast.Ident)
		if !ok {
			fatal(v.Pos(), "unsupported assignment target %s", src(lhs))
		}
		o := e.obj(id)
		if n, ok := e.arrays[o]; ok {
			iv := u.constVal(l.Index)
			if iv == nil {
				fatal(v.Pos(), "non-constant index into local array %s", id.Name)
			}
			i, _ := constant.Int64Val(iv)
			if i < 0 || i >= n {
				fatal(v.Pos(), "index out of range in %s", src(lhs))
			}
			at := o.Type().Underlying().(*types.Array)
			return fmt.Sprintf("%slet %s_%d : %s := %s\n", ind, leanLocal(id.Name), i, leanKind(kindOfType(at.Elem())), rhs(lhs))
		}
		// global table write (state-passing functions only)
		if ov, ok := o.(*types.Var); ok && ov.Parent() == u.pi.pkg.Scope() && e.stateFn && v.Tok == token.ASSIGN {
			slot := stateSlot(ov.Name())
			if slot == 0 {
				fatal(v.Pos(), "write to package variable %s, which is not part of the table state", ov.Name())
			}
			idx, val := e.expr(l.Index), e.expr(v.Rhs[0])
			if slot == 1 {
				return fmt.Sprintf("%slet t : Tables := (t.1.setIfInBounds %s %s, t.2)\n", ind, idx, val)
			}
			return fmt.Sprintf("%slet t : Tables := (t.1, t.2.setIfInBounds %s %s)\n", ind, idx, val)
		}
	}
	fatal(v.Pos(), "unsupported assignment %s", src(v))
	return ""
}

// assignTuple: `a, b, _ := f(…)` / `a, b, c = f(…)` — the call's tuple is bound once, then each named target is
// (re)bound to its projection (a Nat-modelled int result is cast to Int when the caller's ints are Int).
func (e *env) assignTuple(v *ast.AssignStmt, c *ast.CallExpr, ind string) string {
	tup, ok := e.u.typeOf(c).(*types.Tuple)
	if !ok || tup.Len() != len(v.Lhs) {
		fatal(v.Pos(), "unsupported multiple assignment %s", src(v))
	}
	call, natRes := e.callFull(c)
	out := fmt.Sprintf("%slet r' : %s := %s\n", ind, e.calleeTupleType(c.Pos(), tup, natRes), call)
	for i, l := range v.Lhs {
		id, ok := unparen(l).(*ast.Ident)
		if !ok {
			fatal(l.Pos(), "unsupported assignment target %s", src(l))
		}
		if id.Name == "_" {
			continue
		}
		o := e.obj(id)
		if ov, ok := o.(*types.Var); ok && ov.Parent() == e.u.pi.pkg.Scope() {
			fatal(v.Pos(), "assignment to package variable %s", id.Name)
		}
		if _, ok := e.arrays[o]; ok {
			fatal(v.Pos(), "tuple assignment to a local array")
		}
		if v.Tok == token.DEFINE && e.u.pi.info.Defs[id] != nil {
			e.checkShadow(id)
		}
		pr := tupleProj("r'", int64(i), int64(tup.Len()))
		if i < len(natRes) && natRes[i] {
			pr = "(Int.ofNat " + pr + ")"
		}
		out += fmt.Sprintf("%slet %s : %s := %s\n", ind, leanLocal(id.Name), e.localType(o), pr)
	}
	return out
}

// calleeTupleType: the Lean type of a callee's result tuple as the callee is modelled (Nat where natRes says so).
func (e *env) calleeTupleType(p token.Pos, tup *types.Tuple, natRes []bool) string {
	var parts []string
	for i := 0; i < tup.Len(); i++ {
		if i < len(natRes) && natRes[i] {
			parts = append(parts, "Nat")
		} else {
			parts = append(parts, e.u.leanType(p, tup.At(i).Type()))
		}
	}
	return strings.Join(parts, " × ")
}

// state = (lookupPos, lookupIJ)
func stateSlot(name string) int {
	switch name {
	case "lookupPos":
		return 1
	case "lookupIJ":
		return 2
	}
	return 0
}

// checkShadow refuses a `:=` that shadows another local of the enclosing function (Lean `let` shadowing would
// then differ from Go scoping after the inner block ends).
func (e *env) checkShadow(id *ast.Ident) {
	o := e.u.pi.info.Defs[id]
	if o == nil {
		return
	}
	sc := o.Parent()
	if sc == nil {
		return
	}
	for p := sc.Parent(); p != nil && p != e.u.pi.pkg.Scope() && p != types.Universe; p = p.Parent() {
		if other := p.Lookup(id.Name); other != nil {
			if _, isVar := other.(*types.Var); isVar {
				fatal(id.Pos(), "local %s shadows an outer local; not supported", id.Name)
			}
		}
	}
}

func (e *env) stateCall(c *ast.CallExpr, ind string) string {
	id, ok := unparen(c.Fun).(*ast.Ident)
	if !ok {
		fatal(c.Pos(), "unsupported statement %s", src(c))
	}
	fn, ok := e.u.pi.info.Uses[id].(*types.Func)
	if !ok || !e.u.state[fn.Name()] || !e.stateFn {
		fatal(c.Pos(), "unsupported call statement %s", src(c))
	}
	var args []string
	for _, a := range c.Args {
		args = append(args, e.atom(a))
	}
	fuel := "fuel"
	if fn.Name() != e.selfKey {
		fuel = "(" + e.fuel[0] + ")"
	}
	return fmt.Sprintf("%slet t : Tables := %s %s %s t\n", ind, e.u.emitted[fn.Name()], fuel, strings.Join(args, " "))
}

func (e *env) ifStmt(v *ast.IfStmt, ind string, k fallFn, rest []ast.Stmt) string {
	pre := ""
	if v.Init != nil {
		as, ok := v.Init.(*ast.AssignStmt)
		if !ok || as.Tok != token.DEFINE {
			fatal(v.Init.Pos(), "unsupported if-initialiser %s", src(v.Init))
		}
		pre = e.assign(as, ind)
		// the initialised name must not be used after the if statement under another meaning: checkShadow did that
	}
	c := e.cond(v.Cond)
	var elseList []ast.Stmt
	hasElse := v.Else != nil
	switch el := v.Else.(type) {
	case *ast.BlockStmt:
		elseList = el.List
	case *ast.IfStmt:
		elseList = []ast.Stmt{el}
	case nil:
	default:
		fatal(v.Else.Pos(), "unsupported else")
	}
	tThen, tElse := terminates(v.Body.List), hasElse && terminates(elseList)
	in := ind + "  "
	if tThen || tElse {
		// at least one branch leaves: the rest of the list continues the other one
		var thenS, elseS string
		if tThen {
			thenS = e.seq(v.Body.List, in, nil, v.Body.End())
		} else {
			thenS = e.seq(v.Body.List, in, k, v.Body.End())
		}
		if tElse {
			elseS = e.seq(elseList, in, nil, v.End())
		} else {
			elseS = e.seq(elseList, in, k, v.End())
		}
		if tThen && tElse && len(rest) != 0 {
			fatal(rest[0].Pos(), "unreachable statement")
		}
		return fmt.Sprintf("%s%sif %s then\n%s\n%selse\n%s", pre, ind, c, thenS, ind, elseS)
	}
	// join: the if assigns outer variables
	vs := e.assigned(v, v.Pos(), v.End())
	if e.stateFn {
		fatal(v.Pos(), "conditional without return in a state-passing function")
	}
	if len(vs) == 0 {
		fatal(v.Pos(), "if statement without effect on locals: %s", oneLine(v.Cond))
	}
	for _, o := range vs {
		if _, ok := e.arrays[o]; ok {
			fatal(v.Pos(), "conditional assignment to a local array")
		}
	}
	val, _ := e.tupleOf(vs)
	yield := func(ind string) string { return ind + val }
	in2 := in + "  "
	thenS := e.seq(v.Body.List, in2, yield, v.Body.End())
	elseS := e.seq(elseList, in2, yield, v.End())
	body := fmt.Sprintf("%sif %s then\n%s\n%selse\n%s", in, c, thenS, in, elseS)
	if pre != "" {
		body = e.reindent(pre, "  ") + body
	}
	return e.bindTuple(vs, body, ind) + k(ind)
}

func (e *env) reindent(s, by string) string {
	lines := strings.Split(strings.TrimRight(s, "\n"), "\n")
	for i := range lines {
		lines[i] = by + lines[i]
	}
	return strings.Join(lines, "\n") + "\n"
}

func (e *env) loopNext(ind string) string {
	out := ""
	if e.loop.post != nil {
		switch p := e.loop.post.(type) {
		case *ast.IncDecStmt, *ast.AssignStmt:
			saved := e.loop
			e.loop = nil
			out = e.seq([]ast.Stmt{p}, ind, func(string) string { return "" }, p.End())
			e.loop = saved
		default:
			fatal(p.Pos(), "unsupported loop post statement")
		}
	}
	val, _ := e.tupleOf(e.loop.carried)
	return out + ind + e.loop.call + " fuel " + val
}

// forStmt: `for init; cond; post { body }` becomes
//
//	def F_loopK (captured…) : Nat → Carried → Carried
//	  | 0, c => c
//	  | fuel+1, c => if cond then (body; post; F_loopK … fuel c') else c
//
// `break` yields the carried variables, `continue` / falling off the body runs post and recurses.
//
// A body that contains `return x` (only str.go: CellIDFromString) makes the loop function Except-valued:
//
//	def F_loopK (captured…) : Nat → Carried → Except R Carried      (R = the function's result type)
//	  return x -> .error x;  break / loop exit / fuel 0 -> .ok carried
//	… match F_loopK … fuel carried with | .error r' => r' | .ok c' => (rebind carried from c'; rest of the function)
func hasReturn(n ast.Node) bool {
	found := false
	ast.Inspect(n, func(x ast.Node) bool {
		switch x.(type) {
		case *ast.ReturnStmt:
			found = true
		case *ast.FuncLit:
			return false
		}
		return !found
	})
	return found
}

func (e *env) forStmt(v *ast.ForStmt, ind string, after fallFn) string {
	if e.loop != nil {
		fatal(v.Pos(), "nested loops are not supported")
	}
	if s, ok := e.countDownFold(v, ind); ok {
		return s
	}
	if e.nloops >= len(e.fuel) {
		fatal(v.Pos(), "loop without a fuel bound in the translator's table")
	}
	fuel := e.fuel[e.nloops]
	e.nloops++
	pre := ""
	if v.Init != nil {
		as, ok := v.Init.(*ast.AssignStmt)
		if !ok {
			fatal(v.Init.Pos(), "unsupported loop initialiser")
		}
		pre = e.assign(as, ind)
	}
	body := &ast.BlockStmt{List: v.Body.List, Lbrace: v.Body.Lbrace, Rbrace: v.Body.Rbrace}
	lo, hi := v.Body.Pos(), v.Body.End()
	carried := e.assigned(body, lo, hi)
	if v.Post != nil {
		for _, o := range e.assigned(v.Post, lo, hi) {
			dup := false
			for _, c := range carried {
				dup = dup || c == o
			}
			if !dup {
				carried = append(carried, o)
			}
		}
	}
	if len(carried) == 0 {
		fatal(v.Pos(), "loop without loop-carried variables")
	}
	for _, o := range carried {
		if _, ok := e.arrays[o]; ok {
			fatal(v.Pos(), "loop assigns a local array")
		}
	}
	// captured: locals/params read in the loop, declared outside it, not carried
	var captured []types.Object
	seen := map[types.Object]bool{}
	for _, o := range carried {
		seen[o] = true
	}
	scan := func(n ast.Node) {
		if n == nil {
			return
		}
		ast.Inspect(n, func(x ast.Node) bool {
			id, ok := x.(*ast.Ident)
			if !ok {
				return true
			}
			o, ok := e.u.pi.info.Uses[id].(*types.Var)
			if !ok || o.IsField() || o.Parent() == e.u.pi.pkg.Scope() || seen[o] {
				return true
			}
			if o.Pos() >= v.Pos() && o.Pos() < v.End() {
				return true
			}
			seen[o] = true
			captured = append(captured, o)
			return true
		})
	}
	if v.Cond != nil {
		scan(v.Cond)
	}
	scan(v.Body)
	if v.Post != nil {
		scan(v.Post)
	}
	name := fmt.Sprintf("%s_loop%d", e.name, e.nloops)
	var cparams, cargs []string
	for _, o := range captured {
		if _, ok := e.arrays[o]; ok {
			fatal(v.Pos(), "loop reads a local array")
		}
		cparams = append(cparams, fmt.Sprintf("(%s : %s)", leanLocal(o.Name()), e.localType(o)))
		cargs = append(cargs, leanLocal(o.Name()))
	}
	val, typ := e.tupleOf(carried)
	var pats []string
	for _, o := range carried {
		pats = append(pats, leanLocal(o.Name()))
	}
	pat := strings.Join(pats, ", ")
	if len(carried) > 1 {
		pat = "(" + pat + ")"
	}
	call := strings.TrimSpace(e.u.ns + "." + name + " " + strings.Join(cargs, " "))
	exc := after != nil
	if exc && (!strOK || e.retType == "") {
		fatal(v.Pos(), "return inside a loop is not supported")
	}
	okw := ""
	if exc {
		okw = ".ok "
	}
	e.loop = &loopCtx{carried: carried, call: call, post: v.Post, exc: exc}
	next := func(ind string) string { return e.loopNext(ind) }
	var bodyS string
	if v.Cond != nil {
		inner := e.seq(v.Body.List, "      ", next, v.Body.End())
		bodyS = fmt.Sprintf("    if %s then\n%s\n    else\n      %s%s", e.cond(v.Cond), inner, okw, val)
	} else {
		bodyS = e.seq(v.Body.List, "    ", next, v.Body.End())
	}
	e.loop = nil
	var b strings.Builder
	if exc {
		fmt.Fprintf(&b, "/-- loop %d of %s: `%s` — fuel-recursive; `return x` inside the loop is `.error x`, leaving the loop is `.ok` of the loop-carried variables. -/\n", e.nloops, e.name, loopHeader(v))
		fmt.Fprintf(&b, "def %s %s : Nat → %s → Except %s %s\n", name, strings.Join(cparams, " "), paren(typ), paren(e.retType), paren(typ))
	} else {
		fmt.Fprintf(&b, "/-- loop %d of %s: `%s` — fuel-recursive; `break` returns the loop-carried variables. -/\n", e.nloops, e.name, loopHeader(v))
		fmt.Fprintf(&b, "def %s %s : Nat → %s → %s\n", name, strings.Join(cparams, " "), paren(typ), paren(typ))
	}
	fmt.Fprintf(&b, "  | 0, %s => %s%s\n", pat, okw, val)
	fmt.Fprintf(&b, "  | fuel+1, %s =>\n%s\n\n", pat, bodyS)
	e.u.aux = append(e.u.aux, b.String())
	if exc {
		in := ind + "  "
		out := fmt.Sprintf("%smatch %s (%s) %s with\n%s| .error r' => r'\n%s| .ok c' =>\n", ind, call, fuel, val, ind, ind)
		for i, o := range carried {
			pr := "c'"
			if len(carried) > 1 {
				pr = tupleProj("c'", int64(i), int64(len(carried)))
			}
			out += fmt.Sprintf("%slet %s : %s := %s\n", in, leanLocal(o.Name()), e.localType(o), pr)
		}
		return pre + out + after(in)
	}
	rhs := fmt.Sprintf("%s  %s (%s) %s", ind, call, fuel, val)
	return pre + e.bindTuple(carried, rhs, ind)
}

// countDownFold: `for k := C; k >= 0; k-- { body }` with C a constant, a body without break / continue / return /
// inner loop and without assignment to k runs the body for k = C, C-1, …, 0 in this order.  It becomes
//
//	def F_bodyN (captured…) (c' : Carried) (k : Nat) : Carried := body; (carried…)
//	… [C, …, 1, 0].foldl (F_bodyN captured…) (carried…)
//
// (loop-carried variables in declaration order).  No fuel is involved.
func (e *env) countDownFold(v *ast.ForStmt, ind string) (string, bool) {
	info := e.u.pi.info
	as, ok := v.Init.(*ast.AssignStmt)
	if !ok || as.Tok != token.DEFINE || len(as.Lhs) != 1 || len(as.Rhs) != 1 {
		return "", false
	}
	kid, ok := as.Lhs[0].(*ast.Ident)
	if !ok {
		return "", false
	}
	kobj := info.Defs[kid]
	cv := e.u.constVal(as.Rhs[0])
	if kobj == nil || cv == nil || !isGoInt(kobj.Type()) {
		return "", false
	}
	top, exact := constant.Int64Val(constant.ToInt(cv))
	if !exact || top < 0 || top > 64 {
		return "", false
	}
	cond, ok := unparen(v.Cond).(*ast.BinaryExpr)
	if !ok || cond.Op != token.GEQ {
		return "", false
	}
	cx, ok := unparen(cond.X).(*ast.Ident)
	zero := e.u.constVal(cond.Y)
	if !ok || info.Uses[cx] != kobj || zero == nil || constant.Sign(constant.ToInt(zero)) != 0 {
		return "", false
	}
	post, ok := v.Post.(*ast.IncDecStmt)
	if !ok || post.Tok != token.DEC {
		return "", false
	}
	px, ok := unparen(post.X).(*ast.Ident)
	if !ok || info.Uses[px] != kobj {
		return "", false
	}
	plain := true
	ast.Inspect(v.Body, func(x ast.Node) bool {
		switch x.(type) {
		case *ast.BranchStmt, *ast.ReturnStmt, *ast.ForStmt, *ast.RangeStmt, *ast.FuncLit, *ast.GoStmt, *ast.DeferStmt, *ast.LabeledStmt:
			plain = false
		}
		return plain
	})
	if !plain {
		return "", false
	}
	lo, hi := v.Body.Pos(), v.Body.End()
	carried := e.assigned(v.Body, lo, hi)
	for _, o := range carried {
		if o == kobj {
			return "", false
		}
		if _, ok := e.arrays[o]; ok {
			fatal(v.Pos(), "loop assigns a local array")
		}
	}
	if len(carried) == 0 {
		fatal(v.Pos(), "loop without loop-carried variables")
	}
	sort.SliceStable(carried, func(a, b int) bool { return carried[a].Pos() < carried[b].Pos() })
	var captured []types.Object
	seen := map[types.Object]bool{kobj: true}
	for _, o := range carried {
		seen[o] = true
	}
	ast.Inspect(v.Body, func(x ast.Node) bool {
		id, ok := x.(*ast.Ident)
		if !ok {
			return true
		}
		o, ok := info.Uses[id].(*types.Var)
		if !ok || o.IsField() || o.Parent() == e.u.pi.pkg.Scope() || seen[o] {
			return true
		}
		if o.Pos() >= v.Pos() && o.Pos() < v.End() {
			return true
		}
		seen[o] = true
		captured = append(captured, o)
		return true
	})
	e.nfolds++
	name := fmt.Sprintf("%s_body%d", e.name, e.nloops+e.nfolds)
	var cparams, cargs []string
	for _, o := range captured {
		if _, ok := e.arrays[o]; ok {
			fatal(v.Pos(), "loop reads a local array")
		}
		cparams = append(cparams, fmt.Sprintf("(%s : %s)", leanLocal(o.Name()), e.localType(o)))
		cargs = append(cargs, leanLocal(o.Name()))
	}
	val, typ := e.tupleOf(carried)
	yield := func(ind string) string { return ind + val }
	body := e.seq(v.Body.List, "  ", yield, v.Body.End())
	kty := e.localType(kobj)
	var b strings.Builder
	fmt.Fprintf(&b, "/-- loop %d of %s: `%s` — ONE iteration, as a function of the loop-carried variables `c'` and of k;\n    the loop is the left fold of this function over k = %d, …, 1, 0 (the body has no break/continue/return and does not assign k). -/\n",
		e.nloops+e.nfolds, e.name, loopHeader(v), top)
	fmt.Fprintf(&b, "def %s %s(c' : %s) (%s : %s) : %s :=\n", name, joinSp(cparams), typ, leanLocal(kid.Name), kty, typ)
	for i, o := range carried {
		pr := "c'"
		if len(carried) > 1 {
			pr = tupleProj("c'", int64(i), int64(len(carried)))
		}
		fmt.Fprintf(&b, "  let %s : %s := %s\n", leanLocal(o.Name()), e.localType(o), pr)
	}
	b.WriteString(body + "\n\n")
	e.u.aux = append(e.u.aux, b.String())
	var ks []string
	for k := top; k >= 0; k-- {
		ks = append(ks, fmt.Sprint(k))
	}
	call := strings.TrimSpace(e.u.ns + "." + name + " " + strings.Join(cargs, " "))
	if len(cargs) > 0 {
		call = "(" + call + ")"
	}
	rhs := fmt.Sprintf("%s  ([%s] : List %s).foldl %s %s", ind, strings.Join(ks, ", "), kty, call, val)
	return e.bindTuple(carried, rhs, ind), true
}

func joinSp(ps []string) string {
	if len(ps) == 0 {
		return ""
	}
	return strings.Join(ps, " ") + " "
}

func paren(t string) string {
	if strings.Contains(t, " ") {
		return "(" + t + ")"
	}
	return t
}

func loopHeader(v *ast.ForStmt) string {
	s := "for "
	if v.Init != nil {
		s += oneLine(v.Init)
	}
	if v.Init != nil || v.Post != nil {
		s += "; "
	}
	if v.Cond != nil {
		s += oneLine(v.Cond)
	}
	if v.Init != nil || v.Post != nil {
		s += "; "
	}
	if v.Post != nil {
		s += oneLine(v.Post)
	}
	return strings.TrimSpace(s) + " {…}"
}

// ---------------------------------------------------------------- definitions

func (u *unit) findFunc(key string) *ast.FuncDecl {
	var found *ast.FuncDecl
	for _, f := range u.pi.files {
		for _, d := range f.Decls {
			fd, ok := d.(*ast.FuncDecl)
			if !ok || fd.Body == nil {
				continue
			}
			k := fd.Name.Name
			if fd.Recv != nil && len(fd.Recv.List) == 1 {
				rt := fd.Recv.List[0].Type
				if s, ok := rt.(*ast.StarExpr); ok {
					rt = s.X
				}
				if id, ok := rt.(*ast.Ident); ok {
					k = id.Name + "." + k
				}
			}
			if k == key {
				if found != nil && key != "init" {
					die("function %s declared twice", key)
				}
				if found == nil {
					found = fd
				}
			}
		}
	}
	if found == nil {
		die("function %s not found in %s", key, u.pi.pkg.Path())
	}
	return found
}

type fnOpt struct {
	fuel     []string // fuel per loop
	state    bool
	intAsInt bool   // Go int -> Int in this function
	floats   bool   // float64 -> S2.F64, r3.Vector -> S2.V3, stuv.go functions by name (nbr.go)
	strs     bool   // string -> String, strconv.ParseUint by name (nbr.go)
	leanName string // Lean name of the definition when the Go name cannot be used (CellID.String)
}

// fn translates one function.
func (u *unit) fn(key string, opt fnOpt) {
	fd := u.findFunc(key)
	name := fd.Name.Name
	if opt.leanName != "" {
		name = opt.leanName
	}
	intAsInt = opt.intAsInt
	floatOK = opt.floats
	strOK = opt.strs
	defer func() { intAsInt = false; floatOK = false; strOK = false }()
	e := &env{u: u, fd: fd, name: name, arrays: map[types.Object]int64{}, fuel: opt.fuel, stateFn: opt.state, selfKey: key}
	var params []string
	addParams := func(fl *ast.FieldList) {
		if fl == nil {
			return
		}
		for _, f := range fl.List {
			if len(f.Names) == 0 {
				fatal(f.Pos(), "unnamed parameter")
			}
			for _, n := range f.Names {
				o := u.pi.info.Defs[n]
				params = append(params, fmt.Sprintf("(%s : %s)", leanLocal(n.Name), u.leanType(n.Pos(), o.Type())))
			}
		}
	}
	addParams(fd.Recv)
	addParams(fd.Type.Params)
	sig := fd.Type.Results
	var ret string
	if opt.state {
		if sig != nil && len(sig.List) != 0 {
			fatal(fd.Pos(), "state-passing function with results")
		}
		ret = "Tables"
	} else {
		if sig == nil || len(sig.List) == 0 {
			fatal(fd.Pos(), "function without result")
		}
		fo := u.pi.info.Defs[fd.Name].(*types.Func)
		res := fo.Type().(*types.Signature).Results()
		if res.Len() == 1 {
			ret = u.leanType(fd.Pos(), res.At(0).Type())
			e.retType = ret
		} else {
			ret = u.leanType(fd.Pos(), res)
		}
	}
	qual := u.ns + "." + name
	if opt.state {
		// registered before translating the body: the function is self-recursive
		u.emitted[key] = qual
		u.state[key] = true
	}
	var body string
	if opt.state {
		body = e.seq(fd.Body.List, "      ", func(ind string) string { return ind + "t" }, fd.Body.End())
	} else {
		// named results are zero-initialised locals; a bare `return` yields their tuple
		pre := ""
		bare := false
		ast.Inspect(fd.Body, func(x ast.Node) bool {
			if r, ok := x.(*ast.ReturnStmt); ok && len(r.Results) == 0 {
				bare = true
			}
			return true
		})
		if sig != nil && bare {
			for _, f := range sig.List {
				for _, n := range f.Names {
					if n.Name == "_" {
						fatal(n.Pos(), "blank named result")
					}
					o := u.pi.info.Defs[n]
					k := kindOfType(o.Type())
					if k != kU64 && k != kNat && k != kInt {
						fatal(n.Pos(), "named result of unsupported type")
					}
					e.named = append(e.named, o)
					pre += fmt.Sprintf("  let %s : %s := 0\n", leanLocal(n.Name), leanKind(k))
				}
			}
		}
		body = pre + e.seq(fd.Body.List, "  ", nil, fd.Body.End())
	}
	if e.nloops != len(opt.fuel) && !opt.state {
		fatal(fd.Pos(), "%s: %d loops translated but %d fuel bounds given", key, e.nloops, len(opt.fuel))
	}
	for _, a := range u.aux {
		u.out.WriteString(a)
	}
	u.aux = nil
	fmt.Fprintf(u.out, "/-- %s: `%s` -/\n", relpos(fd.Pos()), oneLine(fd.Body))
	if opt.state {
		var names []string
		var tys []string
		for _, p := range params {
			p = strings.Trim(p, "()")
			parts := strings.SplitN(p, " : ", 2)
			names = append(names, parts[0])
			tys = append(tys, parts[1])
		}
		fmt.Fprintf(u.out, "def %s : Nat → %s → Tables → Tables\n", name, strings.Join(tys, " → "))
		fmt.Fprintf(u.out, "  | 0, %s, t => t\n", strings.Join(underscores(len(names)), ", "))
		fmt.Fprintf(u.out, "  | fuel+1, %s, t =>\n%s\n\n", strings.Join(names, ", "), body)
	} else {
		fmt.Fprintf(u.out, "def %s %s : %s :=\n%s\n\n", name, strings.Join(params, " "), ret, body)
	}
	u.emitted[key] = qual
	fnIntMode[key] = opt.intAsInt
	u.facts = append(u.facts, fact{Name: key, Kind: "func", Pos: relpos(fd.Pos()), Lean: "S2.Generated." + qual, Sha256: sha(src(fd))})
}

func underscores(n int) []string {
	r := make([]string, n)
	for i := range r {
		r[i] = "_"
	}
	return r
}

// constant: `def Name : T := value` from a package-level constant.
func (u *unit) constant(name string) {
	o, ok := u.pi.pkg.Scope().Lookup(name).(*types.Const)
	if !ok {
		die("constant %s not found in %s", name, u.pi.pkg.Path())
	}
	k := kindOfType(o.Type())
	if b, ok := o.Type().Underlying().(*types.Basic); ok && k == kOther && b.Info()&types.IsInteger != 0 {
		k = kNat // any other integer type: the value itself (must be non-negative)
	}
	if k == kOther {
		fatal(o.Pos(), "constant %s of unsupported type %s", name, o.Type())
	}
	v := lit(o.Pos(), o.Val(), k, false)
	fmt.Fprintf(u.out, "/-- %s: `%s` -/\ndef %s : %s := %s\n\n", relpos(o.Pos()), u.constSource(name), name, leanKind(k), strings.TrimSuffix(strings.TrimPrefix(v, "("), " : "+leanKind(k)+")"))
	u.facts = append(u.facts, fact{Name: name, Kind: "const", Pos: relpos(o.Pos()), Lean: "S2.Generated." + u.ns + "." + name, Value: o.Val().ExactString(), Sha256: sha(u.constSource(name))})
}

// constSource returns the source text `name = expr` of a package-level constant or variable.
func (u *unit) constSource(name string) string {
	for _, f := range u.pi.files {
		for _, d := range f.Decls {
			gd, ok := d.(*ast.GenDecl)
			if !ok || (gd.Tok != token.CONST && gd.Tok != token.VAR) {
				continue
			}
			for _, sp := range gd.Specs {
				vs := sp.(*ast.ValueSpec)
				for i, n := range vs.Names {
					if n.Name == name {
						s := name
						if vs.Type != nil {
							s += " " + oneLine(vs.Type)
						}
						if i < len(vs.Values) {
							s += " = " + oneLine(vs.Values[i])
						}
						return s
					}
				}
			}
		}
	}
	return name
}

func (u *unit) varSpec(name string) (*ast.ValueSpec, int) {
	for _, f := range u.pi.files {
		for _, d := range f.Decls {
			gd, ok := d.(*ast.GenDecl)
			if !ok || gd.Tok != token.VAR {
				continue
			}
			for _, sp := range gd.Specs {
				vs := sp.(*ast.ValueSpec)
				for i, n := range vs.Names {
					if n.Name == name {
						return vs, i
					}
				}
			}
		}
	}
	die("package variable %s not found", name)
	return nil, 0
}

// constElems evaluates a (nested) array composite literal of constants.
func (u *unit) constElems(x ast.Expr) interface{} {
	if v := u.constVal(x); v != nil {
		if kindOfType(u.typeOf(x)) == kOther {
			fatal(x.Pos(), "table entry of unsupported type")
		}
		iv := constant.ToInt(v)
		bi, ok := new(big.Int).SetString(iv.ExactString(), 10)
		if !ok {
			fatal(x.Pos(), "table entry %s is not an integer", src(x))
		}
		return bi
	}
	cl, ok := unparen(x).(*ast.CompositeLit)
	if !ok {
		fatal(x.Pos(), "table entry %s is neither a constant nor a composite literal", src(x))
	}
	at, ok := u.typeOf(cl).Underlying().(*types.Array)
	if !ok {
		if st, ok := u.typeOf(cl).Underlying().(*types.Slice); ok {
			_ = st
			var elems []interface{}
			for _, el := range cl.Elts {
				if _, ok := el.(*ast.KeyValueExpr); ok {
					fatal(el.Pos(), "keyed element in table literal")
				}
				elems = append(elems, u.constElems(el))
			}
			return elems
		}
		fatal(x.Pos(), "table literal %s is not an array", src(x))
	}
	if int64(len(cl.Elts)) != at.Len() {
		fatal(x.Pos(), "table literal with %d of %d elements", len(cl.Elts), at.Len())
	}
	var elems []interface{}
	for _, el := range cl.Elts {
		if _, ok := el.(*ast.KeyValueExpr); ok {
			fatal(el.Pos(), "keyed element in table literal")
		}
		elems = append(elems, u.constElems(el))
	}
	return elems
}

func leanArray(v interface{}) string {
	switch t := v.(type) {
	case *big.Int:
		return t.String()
	case []interface{}:
		var parts []string
		for _, el := range t {
			parts = append(parts, leanArray(el))
		}
		return "#[" + strings.Join(parts, ", ") + "]"
	}
	return "?"
}

func arrayType(v interface{}) string {
	if l, ok := v.([]interface{}); ok && len(l) > 0 {
		return "Array " + paren(arrayType(l[0]))
	}
	if _, ok := v.([]interface{}); ok {
		return "Array Nat"
	}
	return "Nat"
}

func allNonNeg(v interface{}) bool {
	switch t := v.(type) {
	case *big.Int:
		return t.Sign() >= 0
	case []interface{}:
		for _, el := range t {
			if !allNonNeg(el) {
				return false
			}
		}
	}
	return true
}

// table: a package-level array variable initialised by a literal of constants.
func (u *unit) table(name string) {
	vs, i := u.varSpec(name)
	if i >= len(vs.Values) {
		fatal(vs.Pos(), "table %s has no initialiser", name)
	}
	el := u.constElems(vs.Values[i])
	if !allNonNeg(el) {
		fatal(vs.Pos(), "table %s has a negative entry", name)
	}
	fmt.Fprintf(u.out, "/-- %s: `%s` -/\ndef %s : %s := %s\n\n", relpos(vs.Pos()), u.constSource(name), name, arrayType(el), leanArray(el))
	u.globals[name] = u.ns + "." + name
	u.facts = append(u.facts, fact{Name: name, Kind: "table", Pos: relpos(vs.Pos()), Lean: "S2.Generated." + u.ns + "." + name, Sha256: sha(u.constSource(name)), Value: leanArray(el)})
}

// ---------------------------------------------------------------- file 1: cellid.go

const cellidPrelude = `/-
  GENERATED by translator_c01 from s2/cellid.go, s2/bits_go19.go — do not edit.
  Scalar bit methods, constants and Hilbert tables, translated expression by expression
  (rules: see translator_c01/main.go).  uint64/CellID = UInt64, int/uint = Nat, int64 = Int.
-/
import S2.CellID
set_option linter.unusedVariables false
namespace S2
namespace Generated
namespace CellIDFns
open S2.CellID (wordOfInt int64OfWord)

/-- Go ` + "`x << n`" + ` on uint64 with a variable count: 0 when n ≥ 64. -/
def shl64 (x : UInt64) (n : Nat) : UInt64 := if n < 64 then x <<< UInt64.ofNat n else 0
/-- Go ` + "`x >> n`" + ` on uint64 with a variable count: 0 when n ≥ 64. -/
def shr64 (x : UInt64) (n : Nat) : UInt64 := if n < 64 then x >>> UInt64.ofNat n else 0
/-- ` + "`bits.LeadingZeros64`" + ` -/
def leadingZeros64 (x : UInt64) : Nat := if x = 0 then 64 else 63 - x.toNat.log2
/-- the two lookup tables written by ` + "`init`" + `: (lookupPos, lookupIJ) -/
abbrev Tables := Array Nat × Array Nat

`

func (u *unit) section(title string) {
	fmt.Fprintf(u.out, "/-! ### %s -/\n\n", title)
}

func newUnit(pi *pkgInfo, ns string, emitted map[string]string) *unit {
	return &unit{pi: pi, ns: ns, emitted: emitted, globals: map[string]string{}, state: map[string]bool{}, out: &strings.Builder{}}
}

func genCellID(pi *pkgInfo, facts *[]fact, emitted map[string]string) string {
	u := newUnit(pi, "CellIDFns", emitted)
	u.out.WriteString(cellidPrelude)
	u.section("constants")
	for _, c := range []string{"FaceBits", "NumFaces", "MaxLevel", "PosBits", "MaxSize", "wrapOffset", "lookupBits", "swapMask", "invertMask"} {
		u.constant(c)
	}
	// SentinelCellID is a typed constant CellID(^uint64(0))
	u.constant("SentinelCellID")
	u.section("tables")
	for _, t := range []string{"ijToPos", "posToIJ", "posToOrientation"} {
		u.table(t)
	}
	u.section("scalar functions")
	for _, f := range []string{"findLSBSetNonZero64", "findMSBSetNonZero64", "lsbForLevel", "CellID.lsb", "CellID.Face", "CellID.Pos",
		"CellID.IsValid", "CellID.Level", "CellID.IsLeaf", "CellID.ChildPosition", "CellID.Parent", "CellID.immediateParent",
		"CellID.isFace", "CellID.Children", "sizeIJ", "CellID.RangeMin", "CellID.RangeMax", "CellID.Contains", "CellID.Intersects",
		"CellID.ChildBegin", "CellID.ChildBeginAtLevel", "CellID.ChildEnd", "CellID.ChildEndAtLevel", "CellID.Next", "CellID.Prev",
		"CellID.NextWrap", "CellID.PrevWrap", "CellIDFromFace", "CellIDFromFacePosLevel", "CellID.CommonAncestorLevel",
		"CellID.AdvanceWrap", "CellID.Advance", "CellID.distanceFromBegin"} {
		u.fn(f, fnOpt{})
	}
	// MaxTile: both loops change the level by one per iteration, so MaxLevel+2 iterations always suffice
	u.fn("CellID.MaxTile", fnOpt{fuel: []string{"MaxLevel + 2", "MaxLevel + 2"}})
	// String: control skeleton only (validity test, loop bounds `for level := 1; level <= ci.Level(); level++`)
	u.conds("CellID.String")
	u.section("lookup table construction")
	u.lookupTables()
	u.out.WriteString("end CellIDFns\nend Generated\nend S2\n")
	*facts = append(*facts, u.facts...)
	return u.out.String()
}

// lookupTables: initLookupCell (state-passing over (lookupPos, lookupIJ), fuel = recursion depth) and init().
func (u *unit) lookupTables() {
	// sizes of the two tables
	var sizes [2]int64
	for i, n := range []string{"lookupPos", "lookupIJ"} {
		o, ok := u.pi.pkg.Scope().Lookup(n).(*types.Var)
		if !ok {
			die("table %s not found", n)
		}
		at, ok := o.Type().Underlying().(*types.Array)
		if !ok || kindOfType(at.Elem()) != kNat {
			fatal(o.Pos(), "%s is not an array of int", n)
		}
		sizes[i] = at.Len()
		fmt.Fprintf(u.out, "/-- %s: `%s` -/\ndef %s_size : Nat := %d\n\n", relpos(o.Pos()), u.constSource(n), n, at.Len())
		u.facts = append(u.facts, fact{Name: n, Kind: "tablesize", Pos: relpos(o.Pos()), Lean: "S2.Generated." + u.ns + "." + n + "_size", Value: fmt.Sprint(at.Len()), Sha256: sha(u.constSource(n))})
	}
	u.fn("initLookupCell", fnOpt{state: true})
	// init(): the one in cellid.go
	var initFn *ast.FuncDecl
	for i, f := range u.pi.files {
		if u.pi.names[i] != "cellid.go" {
			continue
		}
		for _, d := range f.Decls {
			if fd, ok := d.(*ast.FuncDecl); ok && fd.Recv == nil && fd.Name.Name == "init" {
				if initFn != nil {
					fatal(fd.Pos(), "second init function in cellid.go")
				}
				initFn = fd
			}
		}
	}
	if initFn == nil {
		die("init function not found in cellid.go")
	}
	// recursion depth of initLookupCell: level goes 0,1,…,lookupBits, one call each
	e := &env{u: u, fd: initFn, name: "tables", arrays: map[types.Object]int64{}, fuel: []string{"lookupBits + 1"}, stateFn: true, selfKey: "init"}
	body := e.seq(initFn.Body.List, "  ", func(ind string) string { return ind + "t" }, initFn.Body.End())
	fmt.Fprintf(u.out, "/-- %s: `%s` — run on zero-initialised tables -/\n", relpos(initFn.Pos()), oneLine(initFn.Body))
	fmt.Fprintf(u.out, "def tables : Tables :=\n  let t : Tables := (Array.replicate lookupPos_size 0, Array.replicate lookupIJ_size 0)\n%s\n\n", body)
	u.out.WriteString("def lookupPos : Array Nat := tables.1\ndef lookupIJ : Array Nat := tables.2\n\n")
	u.facts = append(u.facts, fact{Name: "init", Kind: "func", Pos: relpos(initFn.Pos()), Lean: "S2.Generated." + u.ns + ".tables", Sha256: sha(src(initFn))})
}

// ---------------------------------------------------------------- conditions of irregular functions

// conds emits every `if` / `for` condition of a function (source order) as a Bool-valued definition over its
// free local variables.  Used for functions whose control flow (return inside a loop, slices grown by append)
// is outside the translated subset: the hand model's step equation is then tied to these conditions.
func (u *unit) conds(key string) {
	fd := u.findFunc(key)
	name := fd.Name.Name
	e := &env{u: u, fd: fd, name: name, arrays: map[types.Object]int64{}}
	n := 0
	emit := func(c ast.Expr, what string) {
		var params []string
		seen := map[types.Object]bool{}
		ast.Inspect(c, func(x ast.Node) bool {
			id, ok := x.(*ast.Ident)
			if !ok {
				return true
			}
			o, ok := u.pi.info.Uses[id].(*types.Var)
			if !ok || o.IsField() || o.Parent() == u.pi.pkg.Scope() || seen[o] {
				return true
			}
			seen[o] = true
			params = append(params, fmt.Sprintf("(%s : %s)", leanLocal(o.Name()), u.leanType(id.Pos(), o.Type())))
			return true
		})
		fmt.Fprintf(u.out, "/-- %s: %s condition %d of %s: `%s` -/\ndef %s_cond%d %s : Bool :=\n  %s\n\n", relpos(c.Pos()), what, n, name, oneLine(c),
			name, n, strings.Join(params, " "), e.expr(c))
		n++
	}
	ast.Inspect(fd.Body, func(x ast.Node) bool {
		switch v := x.(type) {
		case *ast.IfStmt:
			if v.Init != nil {
				fatal(v.Pos(), "if with initialiser in a function translated by conditions only")
			}
			emit(v.Cond, "if")
		case *ast.ForStmt:
			if v.Init != nil {
				// `x := e` of the loop header: emitted as <name>_init<k>, k = index of the loop condition
				as, ok := v.Init.(*ast.AssignStmt)
				if !ok || as.Tok != token.DEFINE || len(as.Lhs) != 1 || len(as.Rhs) != 1 {
					fatal(v.Init.Pos(), "unsupported loop initialiser in %s", key)
				}
				o := u.pi.info.Defs[as.Lhs[0].(*ast.Ident)]
				var params []string
				seen := map[types.Object]bool{}
				ast.Inspect(as.Rhs[0], func(x ast.Node) bool {
					if id, ok := x.(*ast.Ident); ok {
						if ov, ok := u.pi.info.Uses[id].(*types.Var); ok && !ov.IsField() && ov.Parent() != u.pi.pkg.Scope() && !seen[ov] {
							seen[ov] = true
							params = append(params, fmt.Sprintf("(%s : %s)", leanLocal(ov.Name()), u.leanType(id.Pos(), ov.Type())))
						}
					}
					return true
				})
				fmt.Fprintf(u.out, "/-- %s: loop initialiser `%s` of %s -/\ndef %s_init%d %s : %s :=\n  %s\n\n", relpos(v.Init.Pos()), oneLine(v.Init), name,
					name, n, strings.Join(params, " "), u.leanType(v.Init.Pos(), o.Type()), e.expr(as.Rhs[0]))
			}
			if v.Post != nil {
				if inc, ok := v.Post.(*ast.IncDecStmt); !ok || inc.Tok != token.INC {
					fatal(v.Post.Pos(), "loop post statement other than x++ in %s", key)
				}
			}
			if v.Cond != nil {
				emit(v.Cond, "for")
			}
		case *ast.SwitchStmt, *ast.TypeSwitchStmt, *ast.SelectStmt, *ast.GoStmt, *ast.DeferStmt, *ast.LabeledStmt:
			fatal(x.Pos(), "unsupported control statement in %s", key)
		case *ast.BranchStmt:
			if v.Tok == token.GOTO || v.Label != nil {
				fatal(x.Pos(), "unsupported branch in %s", key)
			}
		}
		return true
	})
	fmt.Fprintf(u.out, "def %s_numConds : Nat := %d\n\n", name, n)
	u.facts = append(u.facts, fact{Name: key, Kind: "conds", Pos: relpos(fd.Pos()), Lean: fmt.Sprintf("S2.Generated.%s.%s_cond0..%d", u.ns, name, n-1), Sha256: sha(src(fd))})
}

// ---------------------------------------------------------------- file 2: cellunion.go

const cellunionPrelude = `/-
  GENERATED by translator_c01 from s2/cellunion.go — do not edit.
  areSiblings, ContainsCellID, IntersectsCellID in full; the conditions of lowerBound and of the
  two-pointer loop of CellUnionFromIntersection.  CellUnion = Array UInt64; x[i] = x[i]! (Go panics where
  Lean returns the default — the callers guard every index).
-/
import S2.Generated.CellIDFns
set_option linter.unusedVariables false
namespace S2
namespace Generated
namespace CellUnionFns

/-- sort.Search(n, f) — the binary search of the Go standard library:
    i, j := 0, n; for i < j { h := int(uint(i+j) >> 1); if !f(h) { i = h + 1 } else { j = h } }; return i -/
def sortSearch (n : Nat) (f : Nat → Bool) : Nat := go n 0 n
where
  go : Nat → Nat → Nat → Nat
    | 0, i, _ => i
    | fuel+1, i, j => if i < j then (let h := (i + j) / 2; if !(f h) then go fuel (h + 1) j else go fuel i h) else i

`

func genCellUnion(pi *pkgInfo, facts *[]fact, emitted map[string]string) string {
	u := newUnit(pi, "CellUnionFns", emitted)
	u.out.WriteString(cellunionPrelude)
	for _, f := range []string{"areSiblings", "CellUnion.IntersectsCellID", "CellUnion.ContainsCellID"} {
		u.fn(f, fnOpt{})
	}
	u.conds("CellUnion.lowerBound")
	u.conds("CellUnionFromIntersection")
	u.out.WriteString("end CellUnionFns\nend Generated\nend S2\n")
	*facts = append(*facts, u.facts...)
	return u.out.String()
}

// ---------------------------------------------------------------- file 3: predicates.go

func ratOf(p token.Pos, v constant.Value) (num, den *big.Int) {
	n, d := constant.Num(v), constant.Denom(v)
	if n.Kind() != constant.Int || d.Kind() != constant.Int {
		fatal(p, "constant %s has no exact rational form", v.String())
	}
	num, _ = new(big.Int).SetString(n.ExactString(), 10)
	den, _ = new(big.Int).SetString(d.ExactString(), 10)
	return
}

func f64bits(p token.Pos, v constant.Value) uint64 {
	fv := constant.ToFloat(v)
	if fv.Kind() != constant.Float && fv.Kind() != constant.Int {
		fatal(p, "constant %s is not numeric", v.String())
	}
	f, _ := constant.Float64Val(fv) // nearest float64, ties to even: the rounding the compiler applies
	if math.IsInf(f, 0) || math.IsNaN(f) {
		fatal(p, "constant %s overflows float64", v.String())
	}
	return math.Float64bits(f)
}

func isFloatType(t types.Type) bool {
	b, ok := t.Underlying().(*types.Basic)
	return ok && b.Info()&types.IsFloat != 0
}

// floatConstsOf scans n for maximal constant sub-expressions of floating-point type, in source order.
func (u *unit) floatConstsOf(owner string, n ast.Node) {
	k := 0
	ast.Inspect(n, func(x ast.Node) bool {
		ex, ok := x.(ast.Expr)
		if !ok {
			return true
		}
		tv, ok := u.pi.info.Types[ex]
		if !ok {
			return true
		}
		if tv.Value == nil {
			return true
		}
		if !isFloatType(tv.Type) {
			return false // constant of another type: nothing float inside matters
		}
		bits := f64bits(ex.Pos(), tv.Value)
		fmt.Fprintf(u.out, "/-- %s: `%s` as float64 -/\ndef %s_f%d : UInt64 := 0x%016x\n\n", relpos(ex.Pos()), oneLine(ex), owner, k, bits)
		u.facts = append(u.facts, fact{Name: fmt.Sprintf("%s#f%d", owner, k), Kind: "floatconst", Pos: relpos(ex.Pos()), Lean: fmt.Sprintf("S2.Generated.%s.%s_f%d", u.ns, owner, k), Value: fmt.Sprintf("0x%016x", bits), Sha256: sha(oneLine(ex))})
		k++
		return false
	})
}

// floatConst: a package-level numeric constant: float64 bit pattern and the exact value num/den.
func (u *unit) floatConst(name string) {
	o, ok := u.pi.pkg.Scope().Lookup(name).(*types.Const)
	if !ok {
		die("constant %s not found in %s", name, u.pi.pkg.Path())
	}
	if !isFloatType(o.Type()) {
		fatal(o.Pos(), "constant %s is not a floating-point constant", name)
	}
	bits := f64bits(o.Pos(), o.Val())
	num, den := ratOf(o.Pos(), o.Val())
	if num.Sign() < 0 {
		fatal(o.Pos(), "negative constant %s", name)
	}
	fmt.Fprintf(u.out, "/-- %s: `%s` rounded to float64 (nearest, ties to even) -/\ndef %s_bits : UInt64 := 0x%016x\n", relpos(o.Pos()), u.constSource(name), name, bits)
	fmt.Fprintf(u.out, "/-- exact value of the untyped constant `%s` = num/den (lowest terms) -/\ndef %s_num : Nat := %s\ndef %s_den : Nat := %s\n\n", name, name, num, name, den)
	u.facts = append(u.facts, fact{Name: name, Kind: "floatconst", Pos: relpos(o.Pos()), Lean: "S2.Generated." + u.ns + "." + name + "_bits", Value: fmt.Sprintf("0x%016x = %s/%s", bits, num, den), Sha256: sha(u.constSource(name))})
}

const predPrelude = `/-
  GENERATED by translator_c01 from s2/predicates.go, r3/precisevector.go — do not edit.
  Floating-point constants evaluated as the Go compiler does (exact untyped constant arithmetic, one rounding
  to float64) as bit patterns; every maximal constant float sub-expression of every function of predicates.go in
  source order (<func>_f<k>); the test cascade of symbolicallyPerturbedSign (big.Float at MaxPrec = exact Int).
-/
import S2.Exact
set_option linter.unusedVariables false
namespace S2
namespace Generated
namespace PredConsts

`

func genPred(s2, r3 *pkgInfo, facts *[]fact, emitted map[string]string) string {
	u := newUnit(s2, "PredConsts", emitted)
	u.out.WriteString(predPrelude)
	u.section("package constants")
	for _, c := range []string{"dblEpsilon", "dblError", "sqrt3", "maxDeterminantError", "detErrorMultiplier", "minStableSignNorm2Product"} {
		u.floatConst(c)
	}
	// r3.MaxPrec
	ur := newUnit(r3, "PredConsts", emitted)
	ur.out = u.out
	ur.constant("MaxPrec")
	u.facts = append(u.facts, ur.facts...)
	u.section("constant float sub-expressions of predicates.go, per function, in source order")
	for i, f := range s2.files {
		if s2.names[i] != "predicates.go" {
			continue
		}
		for _, d := range f.Decls {
			switch dd := d.(type) {
			case *ast.FuncDecl:
				if dd.Body == nil {
					continue
				}
				owner := dd.Name.Name
				if dd.Recv != nil && len(dd.Recv.List) == 1 {
					rt := dd.Recv.List[0].Type
					if st, ok := rt.(*ast.StarExpr); ok {
						rt = st.X
					}
					if id, ok := rt.(*ast.Ident); ok {
						owner = id.Name + "_" + owner
					}
				}
				u.floatConstsOf(owner, dd.Body)
			case *ast.GenDecl:
				if dd.Tok != token.VAR {
					continue
				}
				for _, sp := range dd.Specs {
					vs := sp.(*ast.ValueSpec)
					for j, n := range vs.Names {
						if j < len(vs.Values) && n.Name != "_" {
							u.floatConstsOf("var_"+n.Name, vs.Values[j])
						}
					}
				}
			}
		}
	}
	u.section("symbolicallyPerturbedSign: the order of the tests")
	u.fn("symbolicallyPerturbedSign", fnOpt{intAsInt: true})
	u.out.WriteString("end PredConsts\nend Generated\nend S2\n")
	*facts = append(*facts, u.facts...)
	return u.out.String()
}

// ---------------------------------------------------------------- file 4: codec

// packedTable: a [n]uintN table literal packed into one Nat, `bits` bits per entry (entry i at bit i*bits).
func (u *unit) packedTable(name string, bits uint) {
	vs, i := u.varSpec(name)
	if i >= len(vs.Values) {
		fatal(vs.Pos(), "table %s has no initialiser", name)
	}
	el, ok := u.constElems(vs.Values[i]).([]interface{})
	if !ok {
		fatal(vs.Pos(), "table %s is not an array literal", name)
	}
	packed := new(big.Int)
	for k, e := range el {
		b, ok := e.(*big.Int)
		if !ok || b.Sign() < 0 || b.BitLen() > int(bits) {
			fatal(vs.Pos(), "entry %d of table %s does not fit %d bits", k, name, bits)
		}
		packed.Or(packed, new(big.Int).Lsh(b, uint(k)*bits))
	}
	fmt.Fprintf(u.out, "/-- %s: `%s` (%d entries), %d bits per entry, entry i at bit %d*i -/\ndef %s_len : Nat := %d\ndef %s_packed%d : Nat :=\n  0x%s\n\n",
		relpos(vs.Pos()), name, len(el), bits, bits, name, len(el), name, bits, packed.Text(16))
	u.facts = append(u.facts, fact{Name: name, Kind: "table", Pos: relpos(vs.Pos()), Lean: fmt.Sprintf("S2.Generated.%s.%s_packed%d", u.ns, name, bits), Sha256: sha(oneLine(vs.Values[i]))})
}

const codecPrelude = `/-
  GENERATED by translator_c01 from s2/encode.go, pointcompression.go, polygon.go, cellunion.go, stuv.go,
  interleave.go — do not edit.  Decoder/encoder limits, versions, siTitoPiQi, the interleave tables.
-/
import S2.Generated.CellIDFns
set_option linter.unusedVariables false
namespace S2
namespace Generated
namespace CodecConsts

`

func genCodec(pi *pkgInfo, facts *[]fact, emitted map[string]string) string {
	u := newUnit(pi, "CodecConsts", emitted)
	u.out.WriteString(codecPrelude)
	for _, c := range []string{"encodingVersion", "encodingCompressedVersion", "maxEncodedVertices", "maxEncodedLoops", "maxEncodedCells",
		"derivativeEncodingOrder", "maxSiTi"} {
		u.constant(c)
	}
	u.fn("siTitoPiQi", fnOpt{})
	u.packedTable("deinterleaveLookup", 4)
	u.packedTable("interleaveLookup", 16)
	u.out.WriteString("end CodecConsts\nend Generated\nend S2\n")
	*facts = append(*facts, u.facts...)
	return u.out.String()
}

// ---------------------------------------------------------------- main

func writeFile(dir, name, content string) {
	if err := os.WriteFile(filepath.Join(dir, name), []byte(content), 0o644); err != nil {
		die("%v", err)
	}
}

func main() {
	repo := flag.String("repo", "/repo", "golang/geo checkout")
	outDir := flag.String("out", "", "output directory (lean/S2/Generated)")
	factsPath := flag.String("facts", "", "facts.json to write")
	flag.Parse()
	if *outDir == "" {
		fmt.Fprintln(os.Stderr, "need -out")
		os.Exit(2)
	}
	abs, err := filepath.Abs(*repo)
	if err != nil {
		die("%v", err)
	}
	repoRoot = abs
	ld := &loader{fset: fset, repo: abs, std: importer.ForCompiler(fset, "source", nil), pk: map[string]*pkgInfo{}}
	s2, err := ld.load(modPrefix + "s2")
	if err != nil {
		die("type-checking %s/s2 failed: %v", abs, err)
	}
	if err := os.MkdirAll(*outDir, 0o755); err != nil {
		die("%v", err)
	}
	var facts []fact
	files := map[string]string{}
	r3, err := ld.load(modPrefix + "r3")
	if err != nil {
		die("type-checking %s/r3 failed: %v", abs, err)
	}
	emitted := map[string]string{}
	files["CellIDFns.lean"] = genCellID(s2, &facts, emitted)
	files["CellUnionFns.lean"] = genCellUnion(s2, &facts, emitted)
	files["PredConsts.lean"] = genPred(s2, r3, &facts, emitted)
	files["CodecConsts.lean"] = genCodec(s2, &facts, emitted)
	files["CellIDNbrFns.lean"] = genCellIDNbr(s2, &facts, emitted)
	files["CellIDStrFns.lean"] = genCellIDStr(s2, &facts, emitted)
	var names []string
	for n := range files {
		names = append(names, n)
	}
	sort.Strings(names)
	type fileFact struct {
		File   string `json:"file"`
		Sha256 string `json:"sha256"`
	}
	var ff []fileFact
	for _, n := range names {
		writeFile(*outDir, n, files[n])
		ff = append(ff, fileFact{n, sha(files[n])})
	}
	if *factsPath != "" {
		js, _ := json.MarshalIndent(map[string]interface{}{"translator": "translator_c01", "files": ff, "items": facts}, "", " ")
		if err := os.WriteFile(*factsPath, append(js, '\n'), 0o644); err != nil {
			die("%v", err)
		}
	}
	fmt.Printf("translator_c01: %d items translated into %d files\n", len(facts), len(names))
}
