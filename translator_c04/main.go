// Command translator_c04 re-reads <repo> (type-checked with go/types, constants evaluated with go/constant exactly as
// the compiler does) and emits Lean definitions, EXPRESSION BY EXPRESSION, of the ShapeIndex construction:
//
//   - s2/edge_clipping.go (face clipping, 2D edge clipping, error constants), the r1.Interval / r2.Rect / r2.Point
//     helpers they use                                                                      -> ClipFns.lean       (C04)
//   - s2/paddedcell.go                                                                      -> PaddedCellFns.lean (C12, C06)
//   - s2/shapeindex.go (applyUpdatesInternal and everything below it, the tracker, constants),
//     s2/metric.go (Metric.Value / MinLevel / MaxLevel / ClosestLevel)                      -> BuildFns.lean      (C06)
//
// into <out>.  lean/S2Proofs/Ties/{C04_Clip,C12_PaddedCell,C06_Build}.lean prove `hand-written model function =
// generated definition` for the hand models S2.IndexBuild, S2.PaddedCellM, S2.CellM.
//
// Two styles (the engine is the one of translator_c09: core.go = value mode, skel.go = skeleton extraction).
//
// VALUE MODE (functions that are arithmetic + branches): every generated definition is ONE Go function body; a call of
// another Go function becomes a call of the HAND MODEL function that models the callee (table `registry` in specs.go,
// fatal if the callee is not registered), and that callee is tied by its own theorem.  Rules:
//
//	float64                     -> S2.F64 (bit exact soft float): + - * / unary - by the instances in AST order, never
//	                               re-associated; a < b, <=, >, >=, ==, != -> F64.lt/le/gt/ge/feq/fne;
//	                               math.Abs/Max/Min/Sqrt/Signbit -> F64.abs/fmax/fmin/sqrt/signBit; math.Ilogb -> the hand
//	                               model of the library function (S2.IndexBuild.ilogb); constants are folded by go/types
//	                               and emitted as float64 bit patterns; `math.Ldexp(c, k)` with CONSTANT c = 1 and constant
//	                               k (an exact power of two, no rounding) is emitted as its bit pattern
//	int, int32, uint32, axis    -> Nat (faces, levels, ids, (i,j), shape / edge ids: non-negative in every translated
//	                               function; a - b is truncated subtraction; a negative constant is refused) unless the
//	                               spec says Int (Metric levels); uint32(x) of an int -> x % 4294967296
//	uint64, CellID              -> UInt64
//	r3.Vector, s2.Point, pointUVW -> S2.V3; r2.Point, r1.Interval -> F64 × F64; r2.Rect -> Rect2; other structs by the
//	                               field tables of specs.go (checked against the Go declarations on every run)
//	*T results that may be nil  -> Option T (nil -> none, a value -> some)
//	x := e / x = e / x op= e    -> `let x := e` (shadowing)
//	if c { assignments } [else …] -> `let (x, y) := if c then (…; (x, y)) else (…; (x, y))` (one variable: no tuple)
//	if c { …return… } rest      -> if c then … else rest      (a non-returning branch continues with `rest`)
//	if init; c {…}              -> the init statement, then the rule above
//	switch / match              -> as translator_c09
//
// SKELETON MODE (recursion, slices grown by append, maps, struct fields assigned one by one): every `if`/`for`
// condition `F_cond<k>`, every computed value `F_val<k>` over its ATOMS (maximal non-arithmetic sub-expressions), the
// statement structure `F_shape : String`, the source text of the atoms `F_atoms : String` (so that an operand swap
// `a.f(b)` / `b.f(a)` is visible).  int kinds are Nat there (int32(-1) and unary minus stay as text in the shape).
// A CONDITION that is not expressible over its atoms (comparison of interface values, pointers other than with nil …)
// is fatal (strict mode); a right-hand side / argument that is not expressible stays as source text in the shape.
//
// Anything else inside a function it is asked to translate is a fatal error (exit 1 with file:line).
// Output is a pure function of the source tree (fixed orders, no maps iterated, no absolute paths).
//
// usage: translator_c04 -repo /repo -out lean/S2/Generated [-facts facts.json]
package main

import (
	"bytes"
	"crypto/sha256"
	"encoding/json"
	"flag"
	"fmt"
	"go/ast"
	"go/build"
	"go/importer"
	"go/parser"
	"go/printer"
	"go/token"
	"go/types"
	"os"
	"path/filepath"
	"sort"
	"strings"
)

const tool = "translator_c04"

// ---------------------------------------------------------------- loading

const modPrefix = "github.com/golang/geo/"

type loader struct {
	fset *token.FileSet
	repo string
	std  types.Importer
	pk   map[string]*pkgInfo
}

type pkgInfo struct {
	pkg   *types.Package
	info  *types.Info
	files []*ast.File
	names []string
}

func (m *loader) Import(path string) (*types.Package, error) {
	if strings.HasPrefix(path, modPrefix) {
		p, err := m.load(path)
		if err != nil {
			return nil, err
		}
		return p.pkg, nil
	}
	return m.std.Import(path)
}

func (m *loader) load(path string) (*pkgInfo, error) {
	if p, ok := m.pk[path]; ok {
		return p, nil
	}
	dir := filepath.Join(m.repo, strings.TrimPrefix(path, modPrefix))
	ctx := build.Default
	ctx.BuildTags = nil // hooks (`//go:build verif`) are not part of the translated source
	bp, err := ctx.ImportDir(dir, 0)
	if err != nil {
		return nil, err
	}
	pi := &pkgInfo{}
	names := append([]string{}, bp.GoFiles...)
	sort.Strings(names)
	for _, f := range names {
		af, err := parser.ParseFile(m.fset, filepath.Join(dir, f), nil, parser.ParseComments)
		if err != nil {
			return nil, err
		}
		pi.files = append(pi.files, af)
		pi.names = append(pi.names, f)
	}
	pi.info = &types.Info{
		Types:      map[ast.Expr]types.TypeAndValue{},
		Defs:       map[*ast.Ident]types.Object{},
		Uses:       map[*ast.Ident]types.Object{},
		Selections: map[*ast.SelectorExpr]*types.Selection{},
		Scopes:     map[ast.Node]*types.Scope{},
	}
	conf := types.Config{Importer: m}
	pi.pkg, err = conf.Check(path, m.fset, pi.files, pi.info)
	if err != nil {
		return nil, err
	}
	m.pk[path] = pi
	return pi, nil
}

// ---------------------------------------------------------------- errors / helpers

var fset = token.NewFileSet()
var repoRoot string

func relpos(p token.Pos) string {
	pos := fset.Position(p)
	if r, err := filepath.Rel(repoRoot, pos.Filename); err == nil {
		pos.Filename = r
	}
	return fmt.Sprintf("%s:%d:%d", pos.Filename, pos.Line, pos.Column)
}

func relline(p token.Pos) string {
	pos := fset.Position(p)
	if r, err := filepath.Rel(repoRoot, pos.Filename); err == nil {
		pos.Filename = r
	}
	return fmt.Sprintf("%s:%d", pos.Filename, pos.Line)
}

func fatal(p token.Pos, format string, a ...interface{}) {
	fmt.Fprintf(os.Stderr, "%s: %s: %s\n", tool, relpos(p), fmt.Sprintf(format, a...))
	os.Exit(1)
}

func die(format string, a ...interface{}) {
	fmt.Fprintf(os.Stderr, "%s: %s\n", tool, fmt.Sprintf(format, a...))
	os.Exit(1)
}

func src(n ast.Node) string {
	var b bytes.Buffer
	printer.Fprint(&b, fset, n)
	return b.String()
}

func oneLine(n ast.Node) string {
	s := strings.Join(strings.Fields(src(n)), " ")
	s = strings.ReplaceAll(s, "-/", "- /")
	s = strings.ReplaceAll(s, "/-", "/ -")
	return s
}

func sha(s string) string {
	h := sha256.Sum256([]byte(s))
	return fmt.Sprintf("%x", h[:])
}

var reserved = map[string]bool{"at": true, "from": true, "end": true, "fun": true, "show": true, "have": true, "open": true,
	"in": true, "then": true, "else": true, "if": true, "let": true, "do": true, "match": true, "with": true, "def": true,
	"theorem": true, "where": true, "by": true, "this": true, "variable": true, "section": true, "namespace": true, "instance": true,
	"structure": true, "class": true, "deriving": true, "mutual": true, "private": true, "protected": true, "export": true,
	"import": true, "return": true, "for": true, "nomatch": true, "Type": true, "Prop": true, "Sort": true, "decide": true,
	"true": true, "false": true, "some": true, "none": true, "max": true, "min": true, "pi": true}

func leanLocal(name string) string {
	if reserved[name] {
		return name + "'"
	}
	return name
}

func unparen(e ast.Expr) ast.Expr {
	for {
		p, ok := e.(*ast.ParenExpr)
		if !ok {
			return e
		}
		e = p.X
	}
}

type fact struct {
	Name   string `json:"name"`
	Kind   string `json:"kind"`
	Pos    string `json:"pos"`
	Lean   string `json:"lean"`
	Sha256 string `json:"sha256"`
}

// findFunc finds `Name` or `Recv.Name` in the package.
func findFunc(pi *pkgInfo, key string) *ast.FuncDecl {
	recv, name := "", key
	if i := strings.Index(key, "."); i >= 0 {
		recv, name = key[:i], key[i+1:]
	}
	var found *ast.FuncDecl
	for _, f := range pi.files {
		for _, d := range f.Decls {
			fd, ok := d.(*ast.FuncDecl)
			if !ok || fd.Name.Name != name {
				continue
			}
			r := ""
			if fd.Recv != nil && len(fd.Recv.List) == 1 {
				t := fd.Recv.List[0].Type
				if s, ok := t.(*ast.StarExpr); ok {
					t = s.X
				}
				if id, ok := t.(*ast.Ident); ok {
					r = id.Name
				}
			}
			if r != recv {
				continue
			}
			if found != nil {
				die("%s.%s declared twice", pi.pkg.Name(), key)
			}
			found = fd
		}
	}
	if found == nil || found.Body == nil {
		die("function %s.%s not found in %s — the translated source changed shape", pi.pkg.Name(), key, pi.pkg.Path())
	}
	return found
}

func typeKey(t types.Type) string {
	switch v := t.(type) {
	case *types.Named:
		if v.Obj().Pkg() == nil {
			return v.Obj().Name()
		}
		return v.Obj().Pkg().Name() + "." + v.Obj().Name()
	case *types.Basic:
		if v.Kind() == types.Uint8 {
			return "uint8"
		}
		return v.Name()
	case *types.Pointer:
		return "*" + typeKey(v.Elem())
	case *types.Slice:
		return "[]" + typeKey(v.Elem())
	case *types.Array:
		return fmt.Sprintf("[%d]%s", v.Len(), typeKey(v.Elem()))
	}
	return t.String()
}

func funcKey(f *types.Func) string {
	sig := f.Type().(*types.Signature)
	pk := ""
	if f.Pkg() != nil {
		pk = f.Pkg().Name() + "."
	}
	if r := sig.Recv(); r != nil {
		t := r.Type()
		if p, ok := t.(*types.Pointer); ok {
			t = p.Elem()
		}
		if n, ok := t.(*types.Named); ok {
			return pk + n.Obj().Name() + "." + f.Name()
		}
	}
	return pk + f.Name()
}

// ---------------------------------------------------------------- main

func writeFile(dir, name, content string) {
	if err := os.WriteFile(filepath.Join(dir, name), []byte(content), 0o644); err != nil {
		die("%v", err)
	}
}

func main() {
	repo := flag.String("repo", "/repo", "golang/geo checkout")
	outDir := flag.String("out", "", "output directory (lean/S2/Generated)")
	factsPath := flag.String("facts", "", "facts.json to write")
	flag.Parse()
	if *outDir == "" {
		fmt.Fprintln(os.Stderr, "need -out")
		os.Exit(2)
	}
	abs, err := filepath.Abs(*repo)
	if err != nil {
		die("%v", err)
	}
	repoRoot = abs
	ld := &loader{fset: fset, repo: abs, std: importer.ForCompiler(fset, "source", nil), pk: map[string]*pkgInfo{}}
	if err := os.MkdirAll(*outDir, 0o755); err != nil {
		die("%v", err)
	}
	var facts []fact
	files := map[string]string{}
	G := newGen(ld)
	G.checkStructs()
	files["ClipFns.lean"] = genClip(G)
	files["PaddedCellFns.lean"] = genPadded(G)
	files["BuildFns.lean"] = genBuild(G)
	facts = append(facts, G.facts...)
	var names []string
	for n := range files {
		names = append(names, n)
	}
	sort.Strings(names)
	type fileFact struct {
		File   string `json:"file"`
		Sha256 string `json:"sha256"`
	}
	var ff []fileFact
	for _, n := range names {
		writeFile(*outDir, n, files[n])
		ff = append(ff, fileFact{n, sha(files[n])})
	}
	if *factsPath != "" {
		js, _ := json.MarshalIndent(map[string]interface{}{"translator": tool, "files": ff, "items": facts}, "", " ")
		if err := os.WriteFile(*factsPath, append(js, '\n'), 0o644); err != nil {
			die("%v", err)
		}
	}
	fmt.Printf("%s: %d items translated into %d files\n", tool, len(facts), len(names))
}
