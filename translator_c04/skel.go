package main

// Skeleton extraction (parts 2-4: coverer, query options, cell distance).
//
// The control flow of these functions (pointer receivers, slices grown by append, loops with break/continue, calls
// into float geometry) is outside what can be turned into a Lean function expression by expression.  They are
// translated "by skeleton": for a function F
//
//   * every `if` / `for` condition becomes   def F_cond<k> (atoms…) : Bool
//   * every other computational expression of kind int / uint64 / bool / float64 (right-hand sides, returned values,
//     call arguments, composite-literal fields, closure results) becomes   def F_val<k> (atoms…) : T
//   * what remains — the statement structure with every extracted expression replaced by its name — becomes the
//     string  F_shape.
//
// An ATOM is a maximal sub-expression that is not arithmetic/logic: a local, a field chain (`c.minLevel`), an element
// (`covering[i]`), `len(x)`, a call of an untranslated function (`c.region.IntersectsCell(cell)`), `x == nil`.
// Atoms become the parameters of the definition, in order of first occurrence, named after their source text; the
// same text inside one expression is one parameter.  The tie file instantiates them with the hand model's values.
//
//	int kinds (int, uint, int8 … except uint64) -> Int   (+ - * exact; / % truncate = Int.tdiv / Int.tmod;
//	                                 a << s = a * 2^s; conversions between int kinds are the identity: all
//	                                 quantities here are levels, counts and small shifts, nothing overflows)
//	uint64, CellID                -> UInt64
//	float64, s1.ChordAngle, s1.Angle -> S2.F64 (soft-float): F64.add/sub/mul/div/neg, F64.lt/le (a > b is F64.lt b a),
//	                                 F64.feq; constants are folded by go/types and written as bit patterns
//	a < b …                       -> decide (a < b) ;  == != -> == != ;  && || ! -> && || !
//	maxInt / minInt / c.adjustLevel (translated in full, see fullFn) -> calls of the generated definitions
//
// Every edit of a translated function therefore changes a cond/val definition or the shape string, and a tie
// theorem that mentions it stops to hold.

import (
	"bytes"
	"fmt"
	"go/ast"
	"go/constant"
	"go/token"
	"go/types"
	"strings"
)

type skel struct {
	pi     *pkgInfo
	out    *bytes.Buffer
	ns     string
	facts  []fact
	known  map[string]knownFn // funcKey -> fully translated function
	strict bool               // a condition outside the subset is fatal (otherwise its text stays in the shape)
}

type knownFn struct {
	lean     string
	extra    []string // atoms (source text) that follow the Go arguments
	variadic bool     // f(x, others...) : the arguments after the first are passed as a list
	recvArg  bool     // method: the receiver is the first argument
}

type atom struct {
	text string // normalised source text
	name string
	kind string
}

type atomSet struct {
	list []atom
}

func (a *atomSet) get(text, kind string) string {
	for _, x := range a.list {
		if x.text == text {
			if x.kind != kind {
				die("internal: atom %s with kinds %s and %s", text, x.kind, kind)
			}
			return x.name
		}
	}
	name := sanitize(text)
	for clash := true; clash; {
		clash = false
		for _, x := range a.list {
			if x.name == name {
				name += "'"
				clash = true
			}
		}
	}
	a.list = append(a.list, atom{text, name, kind})
	return name
}

func (a *atomSet) params() string {
	var ps []string
	for _, x := range a.list {
		ps = append(ps, fmt.Sprintf(" (%s : %s)", x.name, x.kind))
	}
	return strings.Join(ps, "")
}

func sanitize(s string) string {
	var b strings.Builder
	last := byte('_')
	for i := 0; i < len(s); i++ {
		c := s[i]
		ok := c == '_' || (c >= '0' && c <= '9') || (c >= 'a' && c <= 'z') || (c >= 'A' && c <= 'Z')
		if !ok {
			c = '_'
		}
		if c == '_' && last == '_' {
			continue
		}
		b.WriteByte(c)
		last = c
	}
	r := strings.Trim(b.String(), "_")
	if r == "" || (r[0] >= '0' && r[0] <= '9') {
		r = "x" + r
	}
	if reserved[r] || r == "level" && false {
		r += "'"
	}
	return r
}

func kindOfType(t types.Type) string {
	if t == nil {
		return ""
	}
	if b, ok := t.Underlying().(*types.Basic); ok {
		switch b.Kind() {
		case types.Int, types.Int8, types.Int16, types.Int32, types.Int64, types.Uint, types.Uint8, types.Uint16, types.Uint32, types.UntypedInt, types.UntypedRune:
			return "Nat"
		case types.Uint64:
			return "UInt64"
		case types.Bool, types.UntypedBool:
			return "Bool"
		case types.Float64, types.UntypedFloat:
			return "F64"
		}
	}
	return ""
}

type xenv struct {
	s     *skel
	atoms *atomSet
	ok    bool // false once something outside the subset was met (only used in tentative mode)
	soft  bool // tentative: do not abort, set ok = false
	why   string
}

func (e *xenv) fail(p token.Pos, format string, a ...interface{}) string {
	if e.soft {
		if e.ok {
			e.why = fmt.Sprintf(format, a...)
		}
		e.ok = false
		return "?"
	}
	fatal(p, format, a...)
	return ""
}

func (e *xenv) typ(x ast.Expr) types.Type {
	if tv, ok := e.s.pi.info.Types[x]; ok {
		return tv.Type
	}
	if id, ok := x.(*ast.Ident); ok {
		if o := e.s.pi.info.Uses[id]; o != nil {
			return o.Type()
		}
		if o := e.s.pi.info.Defs[id]; o != nil {
			return o.Type()
		}
	}
	return nil
}

func (e *xenv) kind(x ast.Expr) string { return kindOfType(e.typ(x)) }

func (e *xenv) atomOf(x ast.Expr) string {
	k := e.kind(x)
	if k == "" {
		return e.fail(x.Pos(), "`%s` has type %v, which is outside the translated subset", oneLine(x), e.typ(x))
	}
	return e.atoms.get(oneLine(x), k)
}

func litOf(p token.Pos, v constant.Value, k string) string {
	switch k {
	case "Bool":
		if constant.BoolVal(v) {
			return "true"
		}
		return "false"
	case "Int", "Nat":
		iv := constant.ToInt(v)
		if iv.Kind() != constant.Int {
			fatal(p, "non-integral constant of integer kind")
		}
		s := iv.ExactString()
		if strings.HasPrefix(s, "-") {
			return "(" + s + ")"
		}
		return s
	case "UInt32":
		iv := constant.ToInt(v)
		u, ok := constant.Int64Val(iv)
		if !ok || u < -(1<<31) || u >= 1<<31 {
			fatal(p, "constant does not fit int32")
		}
		return fmt.Sprintf("(0x%x : UInt32)", uint32(u))
	case "UInt64":
		iv := constant.ToInt(v)
		u, ok := constant.Uint64Val(iv)
		if !ok {
			fatal(p, "constant does not fit uint64")
		}
		return fmt.Sprintf("(0x%x : UInt64)", u)
	case "F64":
		return fmt.Sprintf("(⟨0x%016x⟩ : F64)", f64bits(p, v))
	}
	fatal(p, "constant of unsupported kind")
	return ""
}

func isNilExpr(e *xenv, x ast.Expr) bool {
	tv, ok := e.s.pi.info.Types[unparen(x)]
	return ok && tv.IsNil()
}

// x translates an expression; the result is a Lean term of kind e.kind(x).
func (e *xenv) x(x ast.Expr) string {
	x = unparen(x)
	if tv, ok := e.s.pi.info.Types[x]; ok && tv.Value != nil {
		k := kindOfType(tv.Type)
		if k == "" {
			return e.fail(x.Pos(), "constant `%s` of type %v is outside the translated subset", oneLine(x), tv.Type)
		}
		if k == "Nat" && constant.Sign(constant.ToInt(tv.Value)) < 0 {
			return e.fail(x.Pos(), "negative constant `%s` in the carrier Nat", oneLine(x))
		}
		return litOf(x.Pos(), tv.Value, k)
	}
	switch v := x.(type) {
	case *ast.UnaryExpr:
		switch {
		case v.Op == token.NOT:
			return "!" + atomize(e.x(v.X))
		case v.Op == token.SUB && e.kind(v.X) == "F64":
			return "F64.neg " + atomize(e.x(v.X))
		}
		return e.fail(v.Pos(), "unary %s in `%s` is outside the translated subset", v.Op, oneLine(v))
	case *ast.BinaryExpr:
		return e.binary(v)
	case *ast.CallExpr:
		if ftv, ok := e.s.pi.info.Types[v.Fun]; ok && ftv.IsType() {
			if len(v.Args) == 1 && e.kind(v.Args[0]) != "" && kindOfType(ftv.Type) == e.kind(v.Args[0]) {
				if kindOfType(ftv.Type) != "Nat" {
					return e.x(v.Args[0]) // conversion inside one kind
				}
				// integer conversions: identity only when nothing can be cut off (target int / int64 / uint, or the same
				// basic type); uint32(x) is x mod 2^32; any other narrowing stays an atom (its text is in `_atoms`)
				tb, _ := ftv.Type.Underlying().(*types.Basic)
				fb, _ := e.typ(v.Args[0]).Underlying().(*types.Basic)
				if tb != nil && fb != nil {
					switch {
					case tb.Kind() == fb.Kind(), tb.Kind() == types.Int, tb.Kind() == types.Int64, tb.Kind() == types.Uint,
						fb.Kind() == types.UntypedInt:
						return e.x(v.Args[0])
					case tb.Kind() == types.Uint32:
						return atomize(e.x(v.Args[0])) + " % 4294967296"
					}
				}
			}
			return e.atomOf(x)
		}
		if fn := e.s.calleeOf(v); fn != nil {
			if kf, ok := e.s.known[funcKey(fn)]; ok {
				var args []string
				if kf.recvArg {
					sel, ok := unparen(v.Fun).(*ast.SelectorExpr)
					if !ok {
						return e.fail(v.Pos(), "call of %s without a receiver", kf.lean)
					}
					args = append(args, atomize(e.x(sel.X)))
				}
				for _, a := range v.Args {
					args = append(args, atomize(e.x(a)))
				}
				recv := ""
				if sel, ok := unparen(v.Fun).(*ast.SelectorExpr); ok {
					if _, isSel := e.s.pi.info.Selections[sel]; isSel {
						recv = oneLine(sel.X)
					}
				}
				if kf.variadic {
					if v.Ellipsis != token.NoPos || len(args) < 1 {
						return e.fail(v.Pos(), "call shape of variadic %s", kf.lean)
					}
					args = []string{args[0], "[" + strings.Join(args[1:], ", ") + "]"}
				}
				for _, ex := range kf.extra {
					// atoms of the callee are field chains of its receiver: re-rooted at the actual receiver
					i := strings.Index(ex, ".")
					if recv == "" || i < 0 {
						return e.fail(v.Pos(), "call of %s without a receiver to resolve %s", kf.lean, ex)
					}
					args = append(args, e.atoms.get(recv+ex[i:], "Nat"))
				}
				return kf.lean + " " + strings.Join(args, " ")
			}
		}
		return e.atomOf(x)
	case *ast.Ident, *ast.SelectorExpr, *ast.IndexExpr, *ast.StarExpr:
		return e.atomOf(x)
	}
	return e.fail(x.Pos(), "expression `%s` (%T) is outside the translated subset", oneLine(x), x)
}

func (s *skel) calleeOf(c *ast.CallExpr) *types.Func {
	switch f := unparen(c.Fun).(type) {
	case *ast.Ident:
		fn, _ := s.pi.info.Uses[f].(*types.Func)
		return fn
	case *ast.SelectorExpr:
		if sel, ok := s.pi.info.Selections[f]; ok {
			fn, _ := sel.Obj().(*types.Func)
			return fn
		}
		fn, _ := s.pi.info.Uses[f.Sel].(*types.Func)
		return fn
	}
	return nil
}

var cmpLean = map[token.Token]string{token.LSS: "<", token.LEQ: "≤", token.GTR: ">", token.GEQ: "≥"}

func (e *xenv) binary(b *ast.BinaryExpr) string {
	switch b.Op {
	case token.LAND:
		return atomize(e.x(b.X)) + " && " + atomize(e.x(b.Y))
	case token.LOR:
		return atomize(e.x(b.X)) + " || " + atomize(e.x(b.Y))
	}
	// x == nil
	if (b.Op == token.EQL || b.Op == token.NEQ) && (isNilExpr(e, b.X) || isNilExpr(e, b.Y)) {
		o := b.X
		if isNilExpr(e, b.X) {
			o = b.Y
		}
		a := e.atoms.get(oneLine(o)+" == nil", "Bool")
		if b.Op == token.NEQ {
			return "!" + a
		}
		return a
	}
	kx, ky := e.kind(b.X), e.kind(b.Y)
	if kx == "" || kx != ky {
		return e.fail(b.Pos(), "`%s`: operands of types %v and %v are outside the translated subset", oneLine(b), e.typ(b.X), e.typ(b.Y))
	}
	X, Y := atomize(e.x(b.X)), atomize(e.x(b.Y))
	if kx == "F64" {
		switch b.Op {
		case token.ADD:
			return "F64.add " + X + " " + Y
		case token.SUB:
			return "F64.sub " + X + " " + Y
		case token.MUL:
			return "F64.mul " + X + " " + Y
		case token.QUO:
			return "F64.div " + X + " " + Y
		case token.LSS:
			return "F64.lt " + X + " " + Y
		case token.LEQ:
			return "F64.le " + X + " " + Y
		case token.GTR:
			return "F64.lt " + Y + " " + X
		case token.GEQ:
			return "F64.le " + Y + " " + X
		case token.EQL:
			return "F64.feq " + X + " " + Y
		case token.NEQ:
			return "!(F64.feq " + X + " " + Y + ")"
		}
		return e.fail(b.Pos(), "float operator %s is outside the translated subset", b.Op)
	}
	switch b.Op {
	case token.EQL:
		return X + " == " + Y
	case token.NEQ:
		return X + " != " + Y
	case token.LSS, token.LEQ, token.GTR, token.GEQ:
		if kx == "Bool" {
			return e.fail(b.Pos(), "ordered comparison of booleans")
		}
		return "decide (" + X + " " + cmpLean[b.Op] + " " + Y + ")"
	}
	if kx != "Nat" {
		return e.fail(b.Pos(), "`%s`: operator %s on %s is outside the translated subset", oneLine(b), b.Op, kx)
	}
	// Nat: + * exact, - truncated (every translated subtraction is of a smaller from a larger count / index)
	if op, ok := map[token.Token]string{token.ADD: "+", token.SUB: "-", token.MUL: "*", token.QUO: "/", token.REM: "%",
		token.AND: "&&&", token.OR: "|||", token.XOR: "^^^", token.SHL: "<<<", token.SHR: ">>>"}[b.Op]; ok {
		return X + " " + op + " " + Y
	}
	return e.fail(b.Pos(), "`%s`: operator %s is outside the translated subset", oneLine(b), b.Op)
}

func isAtomRoot(x ast.Expr) bool {
	switch unparen(x).(type) {
	case *ast.Ident, *ast.SelectorExpr, *ast.IndexExpr, *ast.StarExpr:
		return true
	}
	return false
}

// ---- per function

type fnx struct {
	s     *skel
	name  string
	key   string
	fd    *ast.FuncDecl
	nCond int
	nVal  int
	defs  bytes.Buffer
	atoms []string // "cond0(i, c.m)": the source text of the parameters of every cond / val definition
}

func atomTexts(a *atomSet) string {
	var ts []string
	for _, x := range a.list {
		ts = append(ts, x.text)
	}
	return strings.Join(ts, ", ")
}

// try translates x tentatively; ok=false if it is outside the subset.
func (f *fnx) try(x ast.Expr) (string, *atomSet, bool) {
	e := &xenv{s: f.s, atoms: &atomSet{}, ok: true, soft: true}
	t := f.tr(e, x)
	return t, e.atoms, e.ok && e.kind(x) != ""
}

func (f *fnx) tr(e *xenv, x ast.Expr) string {
	return e.x(x)
}

func (f *fnx) cond(c ast.Expr, what string) string {
	e := &xenv{s: f.s, atoms: &atomSet{}, ok: true, soft: !f.s.strict}
	if e.kind(c) != "Bool" {
		fatal(c.Pos(), "condition of kind %v", e.typ(c))
	}
	t := e.x(c)
	if !e.ok {
		// not arithmetic/logic over atoms (comparison of interface values …): the text stays in the shape
		return "‹" + oneLine(c) + "›"
	}
	n := fmt.Sprintf("%s_cond%d", f.name, f.nCond)
	f.atoms = append(f.atoms, fmt.Sprintf("cond%d(%s)", f.nCond, atomTexts(e.atoms)))
	f.nCond++
	fmt.Fprintf(&f.defs, "/-- %s: %s condition of %s: `%s` -/\ndef %s%s : Bool :=\n  %s\n\n", relline(c.Pos()), what, f.key, oneLine(c), n, e.atoms.params(), t)
	return n[len(f.name)+1:]
}

// hole: the text of x in the shape, computational parts replaced by val<k>.
func (f *fnx) hole(x ast.Expr) string {
	if x == nil {
		return ""
	}
	ux := unparen(x)
	if fl, ok := ux.(*ast.FuncLit); ok {
		return "func{" + f.block(fl.Body.List) + "}"
	}
	tv, hasTV := f.s.pi.info.Types[ux]
	isConst := hasTV && tv.Value != nil
	if isConst {
		// a constant EXPRESSION (not a literal or a named constant): its folded value is a definition without parameters
		switch ux.(type) {
		case *ast.BinaryExpr, *ast.UnaryExpr, *ast.CallExpr:
			if k := kindOfType(tv.Type); k == "F64" || (k == "Nat" && constant.Sign(constant.ToInt(tv.Value)) >= 0) {
				n := fmt.Sprintf("%s_val%d", f.name, f.nVal)
				f.atoms = append(f.atoms, fmt.Sprintf("val%d()", f.nVal))
				f.nVal++
				fmt.Fprintf(&f.defs, "/-- %s: constant expression in %s: `%s` -/\ndef %s : %s :=\n  %s\n\n", relline(ux.Pos()), f.key, oneLine(ux), n, k, litOf(ux.Pos(), tv.Value, k))
				return n[len(f.name)+1:] + "‹" + oneLine(ux) + "›"
			}
		}
	}
	if !isAtomRoot(ux) && !isConst {
		if t, atoms, ok := f.try(ux); ok {
			// a call of an untranslated function is an atom: look inside its arguments instead
			if !(len(atoms.list) == 1 && t == atoms.list[0].name) {
				k := (&xenv{s: f.s}).kind(ux)
				n := fmt.Sprintf("%s_val%d", f.name, f.nVal)
				f.atoms = append(f.atoms, fmt.Sprintf("val%d(%s)", f.nVal, atomTexts(atoms)))
				f.nVal++
				fmt.Fprintf(&f.defs, "/-- %s: value in %s: `%s` -/\ndef %s%s : %s :=\n  %s\n\n", relline(ux.Pos()), f.key, oneLine(ux), n, atoms.params(), k, t)
				return n[len(f.name)+1:]
			}
		}
	}
	switch v := ux.(type) {
	case *ast.CallExpr:
		var as []string
		for _, a := range v.Args {
			as = append(as, f.hole(a))
		}
		ell := ""
		if v.Ellipsis != token.NoPos {
			ell = "..."
		}
		return oneLine(v.Fun) + "(" + strings.Join(as, ", ") + ell + ")"
	case *ast.CompositeLit:
		var es []string
		for _, el := range v.Elts {
			if kv, ok := el.(*ast.KeyValueExpr); ok {
				es = append(es, oneLine(kv.Key)+": "+f.hole(kv.Value))
			} else {
				es = append(es, f.hole(el))
			}
		}
		t := ""
		if v.Type != nil {
			t = oneLine(v.Type)
		}
		return t + "{" + strings.Join(es, ", ") + "}"
	case *ast.UnaryExpr:
		if v.Op == token.AND {
			return "&" + f.hole(v.X)
		}
	case *ast.TypeAssertExpr:
		return f.hole(v.X) + ".(" + oneLine(v.Type) + ")"
	}
	return oneLine(ux)
}

func (f *fnx) stmt(s ast.Stmt) string {
	switch v := s.(type) {
	case nil:
		return ""
	case *ast.BlockStmt:
		return "{" + f.block(v.List) + "}"
	case *ast.IfStmt:
		init := ""
		if v.Init != nil {
			init = "[" + f.stmt(v.Init) + "]"
		}
		t := "if" + init + " " + f.cond(v.Cond, "if") + " {" + f.block(v.Body.List) + "}"
		if v.Else != nil {
			switch el := v.Else.(type) {
			case *ast.BlockStmt:
				t += " else {" + f.block(el.List) + "}"
			default:
				t += " else " + f.stmt(el)
			}
		}
		return t
	case *ast.ForStmt:
		t := "for"
		if v.Init != nil {
			t += "[" + f.stmt(v.Init) + "]"
		}
		if v.Cond != nil {
			t += " " + f.cond(v.Cond, "for")
		}
		if v.Post != nil {
			t += " [" + f.stmt(v.Post) + "]"
		}
		return t + " {" + f.block(v.Body.List) + "}"
	case *ast.RangeStmt:
		kv := ""
		if v.Key != nil {
			kv = oneLine(v.Key)
		}
		if v.Value != nil {
			kv += ", " + oneLine(v.Value)
		}
		return "range " + kv + " " + v.Tok.String() + " " + f.hole(v.X) + " {" + f.block(v.Body.List) + "}"
	case *ast.ReturnStmt:
		var rs []string
		for _, r := range v.Results {
			rs = append(rs, f.hole(r))
		}
		return strings.TrimSpace("return " + strings.Join(rs, ", "))
	case *ast.AssignStmt:
		var ls, rs []string
		for _, l := range v.Lhs {
			ls = append(ls, oneLine(l))
		}
		for _, r := range v.Rhs {
			rs = append(rs, f.hole(r))
		}
		return strings.Join(ls, ", ") + " " + v.Tok.String() + " " + strings.Join(rs, ", ")
	case *ast.ExprStmt:
		return f.hole(v.X)
	case *ast.IncDecStmt:
		return oneLine(v.X) + v.Tok.String()
	case *ast.BranchStmt:
		if v.Label != nil {
			return v.Tok.String() + " " + v.Label.Name
		}
		return v.Tok.String()
	case *ast.DeclStmt:
		if gd, ok := v.Decl.(*ast.GenDecl); ok {
			// without the comments attached to the declaration
			cp := *gd
			cp.Doc = nil
			cp.Specs = nil
			for _, sp := range gd.Specs {
				if vs, ok := sp.(*ast.ValueSpec); ok {
					c := *vs
					c.Doc, c.Comment = nil, nil
					cp.Specs = append(cp.Specs, &c)
				} else {
					cp.Specs = append(cp.Specs, sp)
				}
			}
			return oneLine(&cp)
		}
		return oneLine(v)
	case *ast.DeferStmt:
		return "defer " + f.hole(v.Call)
	case *ast.LabeledStmt:
		return v.Label.Name + ": " + f.stmt(v.Stmt)
	case *ast.SwitchStmt:
		t := "switch"
		if v.Init != nil {
			t += "[" + f.stmt(v.Init) + "]"
		}
		if v.Tag != nil {
			t += " " + f.hole(v.Tag)
		}
		var cs []string
		for _, c := range v.Body.List {
			cc := c.(*ast.CaseClause)
			var es []string
			for _, x := range cc.List {
				es = append(es, f.hole(x))
			}
			h := "default"
			if cc.List != nil {
				h = "case " + strings.Join(es, ", ")
			}
			cs = append(cs, h+": "+f.block(cc.Body))
		}
		return t + " {" + strings.Join(cs, " | ") + "}"
	}
	fatal(s.Pos(), "statement `%s` (%T) is outside the translated subset", oneLine(s), s)
	return ""
}

func (f *fnx) block(list []ast.Stmt) string {
	var ts []string
	for _, s := range list {
		ts = append(ts, f.stmt(s))
	}
	return strings.Join(ts, "; ")
}

func leanString(s string) string {
	s = strings.ReplaceAll(s, "\\", "\\\\")
	s = strings.ReplaceAll(s, "\"", "\\\"")
	return "\"" + s + "\""
}

// extract emits the skeleton of pkg function `key` under the Lean name prefix `name`.
func (s *skel) extract(key, name string) {
	fd := findFunc(s.pi, key)
	f := &fnx{s: s, name: name, key: key, fd: fd}
	shape := f.block(fd.Body.List)
	sig := oneLine(&ast.FuncDecl{Recv: fd.Recv, Name: fd.Name, Type: fd.Type})
	fmt.Fprintf(s.out, "/-! ### %s: `%s` -/\n\n", relline(fd.Pos()), sig)
	s.out.Write(f.defs.Bytes())
	fmt.Fprintf(s.out, "def %s_numConds : Nat := %d\ndef %s_numVals : Nat := %d\n", name, f.nCond, name, f.nVal)
	fmt.Fprintf(s.out, "/-- the source text of the parameters of the definitions above, in order -/\ndef %s_atoms : String :=\n  %s\n", name, leanString(strings.Join(f.atoms, "; ")))
	fmt.Fprintf(s.out, "/-- the statement structure of %s; cond<k> / val<k> stand for the definitions above -/\ndef %s_shape : String :=\n  %s\n\n", key, name, leanString(shape))
	s.facts = append(s.facts, fact{Name: s.pi.pkg.Name() + "." + key, Kind: "skeleton", Pos: relline(fd.Pos()),
		Lean: fmt.Sprintf("S2.Generated.%s.%s_{shape,cond0..%d,val0..%d}", s.ns, name, f.nCond-1, f.nVal-1), Sha256: sha(src(fd))})
}

// ---- full translation of small pure integer functions (maxInt, minInt, adjustLevel)

func simpleAtom(s string) bool {
	for _, r := range s {
		if !(r == '_' || r == '.' || r == '\'' || (r >= '0' && r <= '9') || (r >= 'a' && r <= 'z') || (r >= 'A' && r <= 'Z')) {
			return false
		}
	}
	return s != ""
}

func atomize(s string) string {
	if simpleAtom(s) || (strings.HasPrefix(s, "(") && balancedWhole(s)) {
		return s
	}
	return "(" + s + ")"
}

// balancedWhole reports whether the outermost parentheses of s enclose all of s.
func balancedWhole(s string) bool {
	d := 0
	for i, r := range s {
		switch r {
		case '(':
			d++
		case ')':
			d--
			if d == 0 && i != len(s)-1 {
				return false
			}
		}
	}
	return d == 0 && strings.HasSuffix(s, ")")
}

func skTerminates(list []ast.Stmt) bool {
	if len(list) == 0 {
		return false
	}
	switch v := list[len(list)-1].(type) {
	case *ast.ReturnStmt:
		return true
	case *ast.BlockStmt:
		return skTerminates(v.List)
	case *ast.ExprStmt:
		if c, ok := v.X.(*ast.CallExpr); ok {
			if id, ok := c.Fun.(*ast.Ident); ok && id.Name == "panic" {
				return true
			}
		}
	}
	return false
}
