#!/usr/bin/env python3
"""Helper for maintainers (NOT run by ./check): rewrites the block between `-- BEGIN PINS <Ns>` and `-- END PINS <Ns>`
of a hand-owned tie file with, for every skeleton of the generated file lean/S2/Generated/<Ns>.lean:
  theorem shape_<F> : <Ns>.<F>_shape = "<literal>" := rfl      (statement structure)
  theorem atoms_<F> : <Ns>.<F>_atoms = "<literal>" := rfl      (source text of the arguments of every cond / val)
  theorem pin_<F>_cond<k> / pin_<F>_val<k>                      (the definition body as a literal)
  theorem counts_<Ns>                                           (number of conditions / values per function)
After an INTENDED change of the Go source the literals are refreshed by re-running this and reviewing the diff.

usage: mkshapes.py <verif dir> <Ns> <tie file relative to lean/>
"""
import re, sys
verif, ns, tie = sys.argv[1], sys.argv[2], sys.argv[3]
src = open(f"{verif}/lean/S2/Generated/{ns}.lean").read()
out = []
for m in re.finditer(r'^def (\w+)_(shape|atoms) : String :=\n  (".*")$', src, re.M):
    out.append(f'theorem {m.group(2)}_{m.group(1)} : {ns}.{m.group(1)}_{m.group(2)} =\n    {m.group(3)} := rfl')
for mm in re.finditer(r'^def (\w+_(?:cond|val)\d+)(.*) : (.+?) :=\n  (.+)$', src, re.M):
    name, params, rt, body = mm.groups()
    args = re.findall(r'\((\S+) : ', params)
    out.append(f"theorem pin_{name}{params} :\n    {ns}.{name}{''.join(' ' + a for a in args)} = ({body}) := rfl")
names = re.findall(r'^def (\w+)_numConds : Nat := (\d+)\ndef \w+_numVals : Nat := (\d+)$', src, re.M)
if names:
    lhs = ", ".join(f"({ns}.{n}_numConds, {ns}.{n}_numVals)" for n, _, _ in names)
    rhs = ", ".join(f"({c}, {v})" for _, c, v in names)
    out.append(f"/-- number of extracted conditions / values per function, in generation order -/\ntheorem counts_{ns} :\n    [{lhs}] =\n    [{rhs}] := rfl")
path = f"{verif}/lean/{tie}"
t = open(path).read()
b, e = f"-- BEGIN PINS {ns}\n", f"-- END PINS {ns}\n"
i, j = t.index(b) + len(b), t.index(e)
open(path, "w").write(t[:i] + "\n".join(out) + "\n" + t[j:])
print(f"{len(out)} theorems written to {tie}")
