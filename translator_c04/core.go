package main

// The expression / statement engine shared by all parts.

import (
	"fmt"
	"go/ast"
	"go/constant"
	"go/token"
	"go/types"
	"math"
	"math/big"
	"strings"
)

// val is a translated expression: Lean term, Lean type ("rep"), and whether the term needs no parentheses.
type val struct {
	s    string
	rep  string
	atom bool
}

func (v val) p() string {
	if v.atom {
		return v.s
	}
	return "(" + v.s + ")"
}

func atomv(s, rep string) val { return val{s, rep, true} }
func appv(s, rep string) val  { return val{s, rep, false} }

type fnSpec struct {
	lean     string   // Lean function (hand model name, or a generated / prelude name)
	params   []string // reps of the parameters, receiver first; "-" = dropped (the *encoder)
	ret      string   // rep of the result; "Bytes" / "Option Bytes" for encoder callees
	parts    []string // reps of the components when the Go function has several results
	variadic bool     // the arguments after the last fixed parameter are passed as one list
	post     string   // optional projection appended to the call (documented at the entry)
	state    bool     // method of a mutable object (receiver = identifier): the model function returns (new state, value)
}

type gen struct {
	ld    *loader
	pkgs  map[string]*pkgInfo
	facts []fact
}

func newGen(ld *loader) *gen {
	g := &gen{ld: ld, pkgs: map[string]*pkgInfo{}}
	for _, p := range []string{"r1", "r2", "r3", "s1", "s2"} {
		pi, err := ld.load(modPrefix + p)
		if err != nil {
			die("loading %s: %v", p, err)
		}
		g.pkgs[p] = pi
	}
	return g
}

// checkStructs verifies that the Go struct declarations still have the fields the hand model's structures stand for.
func (g *gen) checkStructs() {
	for _, sc := range structChecks {
		i := strings.Index(sc.gotype, ".")
		pi := g.pkgs[sc.gotype[:i]]
		o := pi.pkg.Scope().Lookup(sc.gotype[i+1:])
		if o == nil {
			die("type %s not found", sc.gotype)
		}
		st, ok := o.Type().Underlying().(*types.Struct)
		if !ok {
			fatal(o.Pos(), "type %s is no longer a struct", sc.gotype)
		}
		if sc.exact && st.NumFields() != len(sc.fields) {
			fatal(o.Pos(), "struct %s has %d fields, the model structure %s has %d", sc.gotype, st.NumFields(), sc.lean, len(sc.fields))
		}
		var fs []string
		for j, f := range sc.fields {
			var fld *types.Var
			if sc.exact {
				fld = st.Field(j)
			} else {
				for k := 0; k < st.NumFields(); k++ {
					if st.Field(k).Name() == f[0] {
						fld = st.Field(k)
					}
				}
			}
			if fld == nil || fld.Name() != f[0] || typeKey(fld.Type()) != f[1] {
				got := "missing"
				if fld != nil {
					got = fld.Name() + " " + typeKey(fld.Type())
				}
				fatal(o.Pos(), "field `%s %s` of %s expected by the model structure %s: found %s", f[0], f[1], sc.gotype, sc.lean, got)
			}
			fs = append(fs, f[0]+" "+f[1])
		}
		g.facts = append(g.facts, fact{Name: sc.gotype, Kind: "struct", Pos: relline(o.Pos()), Lean: sc.lean, Sha256: sha(strings.Join(fs, ";"))})
	}
}

// ---------------------------------------------------------------- function environment

type fenv struct {
	g     *gen
	pi    *pkgInfo
	fd    *ast.FuncDecl
	name  string
	vars  map[types.Object]val
	shape []string
	// writer mode
	encObj types.Object
	// lets produced by calls of state-changing methods inside the expression being translated
	pending *[]string
	tmpN    *int
}

func (e *fenv) clone() *fenv {
	c := *e
	c.vars = map[types.Object]val{}
	for k, v := range e.vars {
		c.vars[k] = v
	}
	return &c
}

func (e *fenv) tv(x ast.Expr) types.TypeAndValue {
	tv, ok := e.pi.info.Types[x]
	if !ok {
		if id, ok := x.(*ast.Ident); ok {
			if o := e.pi.info.Uses[id]; o != nil {
				return types.TypeAndValue{Type: o.Type()}
			}
			if o := e.pi.info.Defs[id]; o != nil {
				return types.TypeAndValue{Type: o.Type()}
			}
		}
		fatal(x.Pos(), "no type information for `%s`", oneLine(x))
	}
	return tv
}

func (e *fenv) obj(id *ast.Ident) types.Object {
	if o := e.pi.info.Uses[id]; o != nil {
		return o
	}
	if o := e.pi.info.Defs[id]; o != nil {
		return o
	}
	fatal(id.Pos(), "unresolved identifier %s", id.Name)
	return nil
}

// defaultRep: the Lean type that carries a Go type.
func defaultRep(p token.Pos, t types.Type) string {
	k := typeKey(t)
	if r, ok := typeReps[k]; ok {
		return r
	}
	switch v := t.(type) {
	case *types.Slice:
		return "List " + parenRep(defaultRep(p, v.Elem()))
	case *types.Pointer:
		return defaultRep(p, v.Elem())
	}
	fatal(p, "type %s is outside the translated subset", t)
	return ""
}

// elemRep: the element carrier of a list carrier
func elemRep(r string) string {
	el := strings.TrimPrefix(r, "List ")
	if strings.HasPrefix(el, "(") && strings.HasSuffix(el, ")") {
		el = el[1 : len(el)-1]
	}
	return el
}

func parenRep(r string) string {
	if strings.ContainsAny(r, " ×") && !strings.HasPrefix(r, "(") {
		return "(" + r + ")"
	}
	return r
}

func isIntRep(r string) bool {
	return r == "Nat" || r == "Int" || r == "UInt8" || r == "UInt32" || r == "UInt64"
}

// coerce converts a value to another carrier.
func coerce(p token.Pos, v val, want string) val {
	if v.rep == want || want == "" {
		return v
	}
	if want == "Option "+parenRep(v.rep) {
		return appv("some "+v.p(), want)
	}
	switch v.rep + ">" + want {
	case "Nat>Int":
		return atomv("("+v.s+" : Int)", "Int")
	case "Nat>UInt8":
		return appv("UInt8.ofNat "+v.p(), want)
	case "Nat>UInt32":
		return appv("UInt32.ofNat "+v.p(), want)
	case "Nat>UInt64":
		return appv("UInt64.ofNat "+v.p(), want)
	case "UInt8>Nat", "UInt32>Nat", "UInt64>Nat":
		return atomv(v.p()+".toNat", want)
	case "F64>Bits":
		return atomv(v.p()+".bits", want)
	case "UInt64>Bits":
		return val{v.s, want, v.atom}
	}
	fatal(p, "no conversion from carrier %s to %s for `%s`", v.rep, want, v.s)
	return v
}

// joinRep: the carrier of a binary integer operation with operands of two carriers.
func joinRep(p token.Pos, a, b string) string {
	if a == b {
		return a
	}
	if a == "Nat" && isIntRep(b) {
		return b
	}
	if b == "Nat" && isIntRep(a) {
		return a
	}
	fatal(p, "operands carried by %s and %s", a, b)
	return ""
}

func natLit(p token.Pos, v constant.Value) *big.Int {
	iv := constant.ToInt(v)
	if iv.Kind() != constant.Int {
		fatal(p, "constant %s is not an integer", v)
	}
	bi, ok := new(big.Int).SetString(iv.ExactString(), 10)
	if !ok {
		fatal(p, "constant %s unreadable", v)
	}
	return bi
}

func f64bits(p token.Pos, v constant.Value) uint64 {
	f, _ := constant.Float64Val(constant.ToFloat(v))
	if math.IsInf(f, 0) || math.IsNaN(f) {
		fatal(p, "constant does not fit a float64")
	}
	return math.Float64bits(f)
}

func f64lit(bits uint64) val {
	return atomv(fmt.Sprintf("(⟨0x%016X⟩ : F64)", bits), "F64")
}

// constVal: a Go constant expression (already folded by go/types) in the carrier of its type.
func (e *fenv) constVal(x ast.Expr, tv types.TypeAndValue, want string) val {
	t := tv.Type
	if b, ok := t.Underlying().(*types.Basic); ok {
		switch {
		case b.Info()&types.IsBoolean != 0:
			if constant.BoolVal(tv.Value) {
				return atomv("true", "Bool")
			}
			return atomv("false", "Bool")
		case b.Info()&types.IsFloat != 0:
			return f64lit(f64bits(x.Pos(), tv.Value))
		case b.Info()&types.IsInteger != 0:
			bi := natLit(x.Pos(), tv.Value)
			rep := want
			if !isIntRep(rep) {
				if b.Info()&types.IsUntyped != 0 {
					rep = "Nat"
				} else {
					rep = defaultRep(x.Pos(), t)
				}
			}
			if bi.Sign() < 0 {
				if rep == "Int" {
					return atomv("("+bi.String()+")", "Int")
				}
				if rep == "UInt32" && typeKey(t) == "int32" {
					return atomv(new(big.Int).Add(bi, new(big.Int).Lsh(big.NewInt(1), 32)).String(), rep)
				}
				fatal(x.Pos(), "negative constant %s in carrier %s", bi, rep)
			}
			return atomv(bi.String(), rep)
		case b.Info()&types.IsString != 0:
			return atomv(fmt.Sprintf("%q", constant.StringVal(tv.Value)), "String")
		}
	}
	fatal(x.Pos(), "constant `%s` of type %s is outside the translated subset", oneLine(x), t)
	return val{}
}

// selector chain: base expression and the dotted field path
func (e *fenv) selChain(x ast.Expr) (ast.Expr, []string) {
	var path []string
	for {
		x = unparen(x)
		switch v := x.(type) {
		case *ast.SelectorExpr:
			if _, isSel := e.pi.info.Selections[v]; !isSel {
				return x, path // qualified identifier pkg.Name
			}
			if e.pi.info.Selections[v].Kind() != types.FieldVal {
				fatal(v.Pos(), "method value `%s`", oneLine(v))
			}
			path = append([]string{v.Sel.Name}, path...)
			x = v.X
			continue
		case *ast.StarExpr:
			x = v.X
			continue
		}
		return x, path
	}
}

func (e *fenv) fieldPath(p token.Pos, base val, path []string) val {
	cur := base
	for len(path) > 0 {
		tbl, ok := fieldReps[cur.rep]
		if !ok {
			fatal(p, "field `%s` of a value carried by %s: no field table", strings.Join(path, "."), cur.rep)
		}
		matched := false
		for n := len(path); n >= 1; n-- {
			if f, ok := tbl[strings.Join(path[:n], ".")]; ok {
				if f[0] == "" {
					cur = val{cur.s, f[1], cur.atom}
				} else if strings.HasPrefix(f[0], "=") {
					// a field the model structure does not carry: it is an explicit parameter of the model function
					cur = atomv(f[0][1:], f[1])
				} else {
					cur = atomv(cur.p()+"."+f[0], f[1])
				}
				path = path[n:]
				matched = true
				break
			}
		}
		if !matched {
			fatal(p, "field `%s` of %s is not part of the model structure", strings.Join(path, "."), cur.rep)
		}
	}
	return cur
}

func (e *fenv) exprAs(x ast.Expr, want string) val {
	x = unparen(x)
	if tv := e.tv(x); tv.Value != nil {
		return coerce(x.Pos(), e.constVal(x, tv, want), want)
	}
	if id, ok := x.(*ast.Ident); ok && id.Name == "nil" && strings.HasPrefix(want, "List ") {
		return atomv("[]", want)
	}
	if id, ok := x.(*ast.Ident); ok && id.Name == "nil" && strings.HasPrefix(want, "Option ") {
		return atomv("none", want)
	}
	if want == "Int" {
		// an `int` computation wanted in Int is carried out in Int (a Nat subtraction would truncate)
		if b, ok := x.(*ast.BinaryExpr); ok && (b.Op == token.ADD || b.Op == token.SUB || b.Op == token.MUL) {
			if k := typeKey(e.tv(x).Type); k == "int" || k == "untyped int" {
				a, c := e.exprAs(b.X, "Int"), e.exprAs(b.Y, "Int")
				return appv(a.p()+" "+arith[b.Op]+" "+c.p(), "Int")
			}
		}
	}
	return coerce(x.Pos(), e.expr(x), want)
}

func (e *fenv) expr(x ast.Expr) val {
	x = unparen(x)
	tv := e.tv(x)
	if tv.Value != nil {
		return e.constVal(x, tv, "")
	}
	switch v := x.(type) {
	case *ast.Ident:
		o := e.obj(v)
		if r, ok := e.vars[o]; ok {
			return r
		}
		if pv, ok := o.(*types.Var); ok && pv.Pkg() != nil && pv.Parent() == pv.Pkg().Scope() {
			if gv, ok := globalVars[pv.Pkg().Name()+"."+pv.Name()]; ok {
				return atomv(gv[0], gv[1])
			}
		}
		fatal(v.Pos(), "identifier `%s` is outside the translated subset", v.Name)
	case *ast.SelectorExpr, *ast.StarExpr:
		base, path := e.selChain(x)
		if len(path) == 0 {
			if base == x {
				// qualified identifier of a package-level variable
				if se, ok := x.(*ast.SelectorExpr); ok {
					o := e.obj(se.Sel)
					if gv, ok := globalVars[o.Pkg().Name()+"."+o.Name()]; ok {
						return atomv(gv[0], gv[1])
					}
				}
				fatal(x.Pos(), "`%s` is outside the translated subset", oneLine(x))
			}
			return e.expr(base)
		}
		return e.fieldPath(x.Pos(), e.expr(base), path)
	case *ast.UnaryExpr:
		switch v.Op {
		case token.NOT:
			a := e.exprAs(v.X, "Bool")
			return appv("!"+a.p(), "Bool")
		case token.SUB:
			a := e.expr(v.X)
			switch a.rep {
			case "F64", "Int":
				return appv("-"+a.p(), a.rep)
			case "UInt32", "UInt64":
				return appv("0 - "+a.p(), a.rep)
			}
			fatal(v.Pos(), "unary minus in carrier %s", a.rep)
		case token.AND:
			return e.expr(v.X) // &x: pointers are transparent (values only)
		}
		fatal(v.Pos(), "unary operator %s", v.Op)
	case *ast.BinaryExpr:
		return e.binary(v)
	case *ast.CallExpr:
		return e.call(v)
	case *ast.IndexExpr:
		a := e.expr(v.X)
		if tl, ok := tableReps[a.s]; ok {
			i := e.exprAs(v.Index, "Nat")
			return appv(tl[0]+" "+i.p(), tl[1])
		}
		if strings.HasPrefix(a.rep, "List ") {
			i := e.exprAs(v.Index, "Nat")
			return atomv(a.p()+"["+i.s+"]!", elemRep(a.rep))
		}
		if a.rep == "Table2" || a.rep == "Table1" {
			// the Hilbert curve tables of the hand model (Array (Array Nat) / Array Nat), Go panics past the end
			i := e.exprAs(v.Index, "Nat")
			return atomv(a.p()+"["+i.s+"]!", map[string]string{"Table2": "Table1", "Table1": "Nat"}[a.rep])
		}
		fatal(v.Pos(), "index into a value carried by %s", a.rep)
	case *ast.CompositeLit:
		return e.composite(v)
	case *ast.SliceExpr:
		a := e.expr(v.X)
		if !strings.HasPrefix(a.rep, "List ") || v.Slice3 {
			fatal(v.Pos(), "slice expression on a value carried by %s", a.rep)
		}
		switch {
		case v.Low == nil && v.High != nil:
			return appv(a.p()+".take "+e.exprAs(v.High, "Nat").p(), a.rep)
		case v.Low != nil && v.High == nil:
			return appv(a.p()+".drop "+e.exprAs(v.Low, "Nat").p(), a.rep)
		case v.Low == nil && v.High == nil:
			return a
		}
		fatal(v.Pos(), "two-sided slice expression")
	}
	fatal(x.Pos(), "expression `%s` (%T) is outside the translated subset", oneLine(x), x)
	return val{}
}

func (e *fenv) composite(v *ast.CompositeLit) val {
	t := e.tv(v).Type
	k := typeKey(t)
	sp, ok := compositeReps[k]
	if !ok {
		fatal(v.Pos(), "composite literal of type %s", k)
	}
	// s2.Point{r3.Vector{…}} / Point{v}: transparent
	if sp.transparent {
		if len(v.Elts) != 1 {
			fatal(v.Pos(), "composite literal of %s with %d elements", k, len(v.Elts))
		}
		el := v.Elts[0]
		if kv, ok := el.(*ast.KeyValueExpr); ok {
			el = kv.Value
		}
		return e.exprAs(el, sp.rep)
	}
	if len(v.Elts) != len(sp.fields) {
		fatal(v.Pos(), "composite literal of %s gives %d of %d fields", k, len(v.Elts), len(sp.fields))
	}
	args := make([]string, len(sp.fields))
	for i, el := range v.Elts {
		idx := i
		if kv, ok := el.(*ast.KeyValueExpr); ok {
			name := kv.Key.(*ast.Ident).Name
			idx = -1
			for j, f := range sp.fields {
				if f[0] == name {
					idx = j
				}
			}
			if idx < 0 {
				fatal(kv.Pos(), "field %s of %s is not part of the model structure", name, k)
			}
			el = kv.Value
		}
		if args[idx] != "" {
			fatal(el.Pos(), "field given twice")
		}
		args[idx] = e.exprAs(el, sp.fields[idx][1]).s
	}
	return atomv(sp.open+strings.Join(args, ", ")+sp.close, sp.rep)
}

var arith = map[token.Token]string{token.ADD: "+", token.SUB: "-", token.MUL: "*", token.QUO: "/", token.REM: "%",
	token.AND: "&&&", token.OR: "|||", token.XOR: "^^^"}

func (e *fenv) binary(v *ast.BinaryExpr) val {
	switch v.Op {
	case token.LAND, token.LOR:
		a, b := e.exprAs(v.X, "Bool"), e.exprAs(v.Y, "Bool")
		op := "&&"
		if v.Op == token.LOR {
			op = "||"
		}
		return appv(a.p()+" "+op+" "+b.p(), "Bool")
	case token.LSS, token.LEQ, token.GTR, token.GEQ, token.EQL, token.NEQ:
		return e.compare(v, false)
	case token.SHL, token.SHR:
		a := e.expr(v.X)
		ctv := e.tv(v.Y)
		gt := typeKey(e.tv(v.X).Type)
		if a.rep == "Nat" {
			c := e.exprAs(v.Y, "Nat")
			op := "<<<"
			if v.Op == token.SHR {
				op = ">>>"
			}
			return appv(a.p()+" "+op+" "+c.p(), "Nat")
		}
		if a.rep == "Int" && v.Op == token.SHR {
			// arithmetic shift of a signed value: Int.shiftRight (floor division by 2^c)
			c := e.exprAs(v.Y, "Nat")
			return appv(a.p()+" >>> "+c.p(), "Int")
		}
		if ctv.Value == nil {
			fatal(v.Pos(), "variable shift count on carrier %s", a.rep)
		}
		c := natLit(v.Y.Pos(), ctv.Value).Int64()
		width := map[string]int64{"UInt8": 8, "UInt32": 32, "UInt64": 64}[a.rep]
		if width == 0 || c >= width {
			fatal(v.Pos(), "shift of carrier %s by %d", a.rep, c)
		}
		if v.Op == token.SHR && (gt == "int32" || gt == "int64" || gt == "int") {
			if gt == "int32" && c == 31 {
				return appv("if "+a.p()+" >>> 31 == 1 then 0xFFFFFFFF else 0", "UInt32")
			}
			fatal(v.Pos(), "arithmetic shift of %s by %d", gt, c)
		}
		op := "<<<"
		if v.Op == token.SHR {
			op = ">>>"
		}
		return appv(fmt.Sprintf("%s %s %d", a.p(), op, c), a.rep)
	}
	op, ok := arith[v.Op]
	if !ok {
		fatal(v.Pos(), "operator %s", v.Op)
	}
	a, b := e.operands(v.X, v.Y)
	rep := a.rep
	switch rep {
	case "F64":
		if v.Op != token.ADD && v.Op != token.SUB && v.Op != token.MUL && v.Op != token.QUO {
			fatal(v.Pos(), "operator %s on floats", v.Op)
		}
	case "Int":
		if v.Op == token.QUO {
			return appv("Int.tdiv "+a.p()+" "+b.p(), rep)
		}
		if v.Op == token.REM {
			return appv("Int.tmod "+a.p()+" "+b.p(), rep)
		}
	case "Nat", "UInt8", "UInt32", "UInt64":
		if gt := typeKey(e.tv(v).Type); (v.Op == token.QUO || v.Op == token.REM) && (gt == "int32") {
			fatal(v.Pos(), "signed division in carrier %s", rep)
		}
	default:
		fatal(v.Pos(), "operator %s in carrier %s", v.Op, rep)
	}
	return appv(a.p()+" "+op+" "+b.p(), rep)
}

// operands translates both operands into their common carrier.
func (e *fenv) operands(x, y ast.Expr) (val, val) {
	xc, yc := e.tv(unparen(x)).Value != nil, e.tv(unparen(y)).Value != nil
	var a, b val
	switch {
	case xc && !yc:
		b = e.expr(y)
		a = e.exprAs(x, b.rep)
	case yc && !xc:
		a = e.expr(x)
		b = e.exprAs(y, a.rep)
	default:
		a, b = e.expr(x), e.expr(y)
	}
	if a.rep != b.rep {
		j := joinRep(x.Pos(), a.rep, b.rep)
		if j == "Int" {
			return e.exprAs(x, "Int"), e.exprAs(y, "Int")
		}
		a, b = coerce(x.Pos(), a, j), coerce(y.Pos(), b, j)
	}
	return a, b
}

func (e *fenv) compare(v *ast.BinaryExpr, asProp bool) val {
	a, b := e.operands(v.X, v.Y)
	switch a.rep {
	case "F64":
		fn := map[token.Token]string{token.LSS: "F64.lt", token.LEQ: "F64.le", token.GTR: "F64.gt", token.GEQ: "F64.ge",
			token.EQL: "F64.feq", token.NEQ: "F64.fne"}[v.Op]
		return appv(fn+" "+a.p()+" "+b.p(), "Bool")
	case "Nat", "Int", "UInt8", "UInt32", "UInt64", "Bool", "α":
		if a.rep == "α" && v.Op != token.EQL && v.Op != token.NEQ {
			fatal(v.Pos(), "ordering of abstract points")
		}
		if a.rep == "UInt32" && typeKey(e.tv(v.X).Type) == "int32" && v.Op != token.EQL && v.Op != token.NEQ {
			fatal(v.Pos(), "signed comparison on the two's complement carrier")
		}
		switch v.Op {
		case token.EQL:
			return appv(a.p()+" == "+b.p(), "Bool")
		case token.NEQ:
			return appv(a.p()+" != "+b.p(), "Bool")
		}
		if a.rep == "Bool" {
			fatal(v.Pos(), "ordering of booleans")
		}
		op := map[token.Token]string{token.LSS: "<", token.LEQ: "≤", token.GTR: ">", token.GEQ: "≥"}[v.Op]
		if asProp {
			return val{a.p() + " " + op + " " + b.p(), "Prop", false}
		}
		return appv("decide ("+a.p()+" "+op+" "+b.p()+")", "Bool")
	}
	if ce, ok := eqReps[a.rep]; ok && (v.Op == token.EQL || v.Op == token.NEQ) {
		s := ce + " " + a.p() + " " + b.p()
		if v.Op == token.NEQ {
			return appv("!("+s+")", "Bool")
		}
		return appv(s, "Bool")
	}
	fatal(v.Pos(), "comparison in carrier %s", a.rep)
	return val{}
}

// cond: the condition of an `if` (a bare proposition when it is a single integer ordering, else a Bool).
func (e *fenv) cond(x ast.Expr) string {
	x = unparen(x)
	if b, ok := x.(*ast.BinaryExpr); ok && e.tv(x).Value == nil {
		switch b.Op {
		case token.LSS, token.LEQ, token.GTR, token.GEQ:
			return e.compare(b, true).s
		}
	}
	return e.exprAs(x, "Bool").s
}

func (e *fenv) call(c *ast.CallExpr) val {
	ftv := e.tv(c.Fun)
	if ftv.IsType() {
		if len(c.Args) != 1 {
			fatal(c.Pos(), "conversion with %d arguments", len(c.Args))
		}
		return e.convert(c, ftv.Type, c.Args[0])
	}
	fun := unparen(c.Fun)
	if id, ok := fun.(*ast.Ident); ok {
		if _, isB := e.obj(id).(*types.Builtin); isB {
			switch id.Name {
			case "len":
				a := e.expr(c.Args[0])
				if strings.HasPrefix(a.rep, "List ") {
					return atomv(a.p()+".length", "Nat")
				}
				fatal(c.Pos(), "len of a value carried by %s", a.rep)
			}
			fatal(c.Pos(), "builtin %s is outside the translated subset here", id.Name)
		}
	}
	var fo *types.Func
	var recv ast.Expr
	switch f := fun.(type) {
	case *ast.Ident:
		fo, _ = e.obj(f).(*types.Func)
	case *ast.SelectorExpr:
		if sel, ok := e.pi.info.Selections[f]; ok {
			if sel.Kind() == types.MethodVal {
				fo, _ = sel.Obj().(*types.Func)
				recv = f.X
			}
		} else {
			fo, _ = e.obj(f.Sel).(*types.Func)
		}
	}
	if fo == nil {
		fatal(c.Pos(), "call of `%s`: not a declared function or method", oneLine(c.Fun))
	}
	key := funcKey(fo)
	if key == "math.Ldexp" {
		// math.Ldexp(1, k) with constant arguments: an exact power of two, emitted as its bit pattern
		if len(c.Args) == 2 {
			ftv, ktv := e.tv(unparen(c.Args[0])), e.tv(unparen(c.Args[1]))
			if ftv.Value != nil && ktv.Value != nil {
				fr, _ := constant.Float64Val(constant.ToFloat(ftv.Value))
				k, exact := constant.Int64Val(constant.ToInt(ktv.Value))
				if fr == 1 && exact && k >= -1022 && k <= 1023 {
					return f64lit(math.Float64bits(math.Ldexp(1, int(k))))
				}
			}
		}
		fatal(c.Pos(), "math.Ldexp with arguments other than the constant 1 and a constant exponent in the normal range")
	}
	sp, ok := registry[key]
	if !ok {
		fatal(c.Pos(), "call of %s: the callee has no model function registered", key)
	}
	args := []ast.Expr{}
	if recv != nil {
		args = append(args, recv)
	}
	args = append(args, c.Args...)
	if sp.variadic {
		n := len(sp.params) - 1
		if len(args) < n || c.Ellipsis != token.NoPos {
			fatal(c.Pos(), "variadic call of %s", key)
		}
		s := sp.lean
		for i := 0; i < n; i++ {
			s += " " + e.exprAs(args[i], sp.params[i]).p()
		}
		var rest []string
		for _, a := range args[n:] {
			rest = append(rest, e.exprAs(a, sp.params[n]).s)
		}
		return appv(s+" ["+strings.Join(rest, ", ")+"]", sp.ret)
	}
	if len(args) != len(sp.params) {
		fatal(c.Pos(), "call of %s with %d arguments, the model function %s takes %d", key, len(args), sp.lean, len(sp.params))
	}
	s := sp.lean
	for i, a := range args {
		if sp.params[i] == "-" {
			continue
		}
		want := sp.params[i]
		if want == "Nat/low" {
			// the callee writes the low bits of a Nat: an outer narrowing conversion of a Nat-carried value is dropped
			want = "Nat"
			if cc, ok := unparen(a).(*ast.CallExpr); ok && e.tv(cc.Fun).IsType() && len(cc.Args) == 1 && e.tv(unparen(a)).Value == nil {
				if in := e.expr(cc.Args[0]); in.rep == "Nat" {
					s += " " + in.p()
					continue
				}
			}
		}
		s += " " + e.exprAs(a, want).p()
	}
	if sp.state {
		id, ok := unparen(recv).(*ast.Ident)
		if !ok {
			fatal(c.Pos(), "state-changing method on a receiver that is not a variable")
		}
		cur, ok := e.vars[e.obj(id)]
		if !ok {
			fatal(c.Pos(), "receiver %s unknown", id.Name)
		}
		*e.tmpN++
		tmp := fmt.Sprintf("s'%d", *e.tmpN)
		*e.pending = append(*e.pending, fmt.Sprintf("let %s := %s\nlet %s : %s := %s.1\n", tmp, s, cur.s, cur.rep, tmp))
		return atomv(tmp+".2", sp.ret)
	}
	r := appv(s, sp.ret)
	if len(args) == 0 || s == sp.lean {
		r.atom = true
	}
	if sp.post != "" {
		r = atomv(r.p()+sp.post, sp.ret)
	}
	return r
}

// convert: the Go conversion T(x).
func (e *fenv) convert(c *ast.CallExpr, to types.Type, x ast.Expr) val {
	a := e.expr(x)
	from := e.tv(unparen(x)).Type
	tk, fk := typeKey(to.Underlying()), typeKey(from.Underlying())
	if _, isStruct := to.Underlying().(*types.Struct); isStruct {
		return a
	}
	if _, isSlice := to.Underlying().(*types.Slice); isSlice {
		return a
	}
	p := c.Pos()
	switch tk {
	case "uint64", "int64":
		switch a.rep {
		case "Nat", "UInt64":
			return a
		case "UInt32", "UInt8":
			return atomv(a.p()+".toUInt64", "UInt64")
		}
	case "uint32", "int32":
		switch a.rep {
		case "UInt32":
			return a
		case "Nat":
			if typeReps[tk] == "Nat" {
				if tk == "uint32" && fk != "uint32" {
					return appv(a.p()+" % 4294967296", "Nat")
				}
				return a
			}
			return appv("UInt32.ofNat "+a.p(), "UInt32")
		case "UInt64":
			return atomv(a.p()+".toUInt32", "UInt32")
		case "F64":
			return appv("((F64.toIntTrunc "+a.p()+") % 4294967296).toNat", "Nat")
		}
	case "uint8":
		switch a.rep {
		case "UInt8":
			return a
		case "Nat":
			return appv("UInt8.ofNat "+a.p(), "UInt8")
		case "UInt64":
			return atomv(a.p()+".toUInt8", "UInt8")
		}
	case "int8":
		if a.rep == "Nat" {
			return a
		}
	case "int", "uint":
		switch a.rep {
		case "Nat", "Int":
			return a
		case "UInt32", "UInt8":
			return atomv(a.p()+".toNat", "Nat")
		case "F64":
			return appv("F64.toIntTrunc "+a.p(), "Int")
		}
	case "float64":
		switch a.rep {
		case "F64":
			return a
		case "Nat":
			return appv("F64.ofNat "+a.p(), "F64")
		case "Int":
			return appv("F64.ofInt "+a.p(), "F64")
		case "UInt32":
			return appv("F64.ofNat "+a.p()+".toNat", "F64")
		}
	}
	fatal(p, "conversion %s(%s) of a value carried by %s", tk, fk, a.rep)
	return a
}

// ---------------------------------------------------------------- statements (value mode)

func indent(s, ind string) string {
	return ind + strings.ReplaceAll(s, "\n", "\n"+ind)
}

func block(s string) string {
	if strings.Contains(s, "\n") {
		return "(\n" + indent(s, "  ") + ")"
	}
	return s
}

func isPanic(e *fenv, s ast.Stmt) bool {
	es, ok := s.(*ast.ExprStmt)
	if !ok {
		return false
	}
	c, ok := es.X.(*ast.CallExpr)
	if !ok {
		return false
	}
	id, ok := c.Fun.(*ast.Ident)
	if !ok {
		return false
	}
	_, isB := e.obj(id).(*types.Builtin)
	return isB && id.Name == "panic"
}

func terminates(e *fenv, list []ast.Stmt) bool {
	if len(list) == 0 {
		return false
	}
	switch s := list[len(list)-1].(type) {
	case *ast.ReturnStmt:
		return true
	case *ast.ExprStmt:
		return isPanic(e, s)
	case *ast.IfStmt:
		if s.Else == nil {
			return false
		}
		var el []ast.Stmt
		switch b := s.Else.(type) {
		case *ast.BlockStmt:
			el = b.List
		default:
			el = []ast.Stmt{b}
		}
		return terminates(e, s.Body.List) && terminates(e, el)
	case *ast.SwitchStmt:
		hasDefault := false
		for _, cc := range s.Body.List {
			c := cc.(*ast.CaseClause)
			if c.List == nil {
				hasDefault = true
			}
			if !terminates(e, c.Body) {
				return false
			}
		}
		return hasDefault
	case *ast.BlockStmt:
		return terminates(e, s.List)
	}
	return false
}

// retReps: the carriers of the results of the function being translated
type retSpec struct {
	reps []string
}

func (e *fenv) bind(id *ast.Ident, v val) string {
	if id.Name == "_" {
		return ""
	}
	o := e.obj(id)
	name := leanLocal(id.Name)
	// a DIFFERENT Go variable of the same name that is still in scope must not be captured
	for clash := true; clash; {
		clash = false
		for o2, v2 := range e.vars {
			if o2 != o && v2.s == name {
				clash = true
			}
		}
		if clash {
			name += "'"
		}
	}
	e.vars[o] = atomv(name, v.rep)
	return fmt.Sprintf("let %s : %s := %s\n", name, v.rep, v.s)
}

// assignedVars: the outer variables assigned in a statement list (simple assignments only).
func (e *fenv) assignedVars(list []ast.Stmt) ([]*ast.Ident, bool) {
	var ids []*ast.Ident
	seen := map[types.Object]bool{}
	for _, s := range list {
		switch a := s.(type) {
		case *ast.AssignStmt:
			if a.Tok == token.DEFINE {
				return nil, false
			}
			for _, l := range a.Lhs {
				id, ok := l.(*ast.Ident)
				if !ok {
					return nil, false
				}
				if o := e.obj(id); !seen[o] {
					seen[o] = true
					ids = append(ids, id)
				}
			}
		case *ast.IncDecStmt:
			id, ok := a.X.(*ast.Ident)
			if !ok {
				return nil, false
			}
			if o := e.obj(id); !seen[o] {
				seen[o] = true
				ids = append(ids, id)
			}
		default:
			return nil, false
		}
	}
	return ids, len(ids) > 0
}

func (e *fenv) assign(a *ast.AssignStmt) string {
	out := ""
	if len(a.Lhs) != len(a.Rhs) {
		// x, y := f()
		if len(a.Rhs) == 1 {
			r := e.expr(a.Rhs[0])
			c, ok := unparen(a.Rhs[0]).(*ast.CallExpr)
			if !ok {
				fatal(a.Pos(), "multi-value assignment from a non-call")
			}
			parts := e.callParts(c)
			if len(parts) != len(a.Lhs) {
				fatal(a.Pos(), "multi-value assignment: %d results, %d carriers registered", len(a.Lhs), len(parts))
			}
			tmp := "r'"
			out += fmt.Sprintf("let %s := %s\n", tmp, r.s)
			for i, l := range a.Lhs {
				proj := tupleProj(i, len(parts))
				out += e.bind(l.(*ast.Ident), atomv(tmp+proj, parts[i]))
			}
			return out
		}
		fatal(a.Pos(), "assignment with %d targets and %d values", len(a.Lhs), len(a.Rhs))
	}
	// evaluate all right-hand sides first (Go semantics of parallel assignment)
	vals := make([]val, len(a.Rhs))
	for i := range a.Rhs {
		id, ok := a.Lhs[i].(*ast.Ident)
		if !ok {
			fatal(a.Lhs[i].Pos(), "assignment to `%s` is outside the translated subset", oneLine(a.Lhs[i]))
		}
		want := ""
		if a.Tok != token.DEFINE {
			if cur, ok := e.vars[e.obj(id)]; ok {
				want = cur.rep
			}
		} else if cur, ok := e.vars[e.obj(id)]; ok && e.pi.info.Defs[id] == nil {
			want = cur.rep
		}
		if want == "" {
			if r, ok := localReps[e.name+"."+id.Name]; ok {
				want = r
			}
		}
		switch a.Tok {
		case token.DEFINE, token.ASSIGN:
			if want != "" {
				vals[i] = e.exprAs(a.Rhs[i], want)
			} else {
				vals[i] = e.expr(a.Rhs[i])
			}
		default:
			op := map[token.Token]token.Token{token.ADD_ASSIGN: token.ADD, token.SUB_ASSIGN: token.SUB, token.MUL_ASSIGN: token.MUL,
				token.OR_ASSIGN: token.OR, token.AND_ASSIGN: token.AND, token.SHR_ASSIGN: token.SHR, token.SHL_ASSIGN: token.SHL,
				token.QUO_ASSIGN: token.QUO, token.XOR_ASSIGN: token.XOR}[a.Tok]
			if op == 0 {
				fatal(a.Pos(), "assignment operator %s", a.Tok)
			}
			be := &ast.BinaryExpr{X: a.Lhs[i], Op: op, Y: a.Rhs[i], OpPos: a.TokPos}
			e.pi.info.Types[be] = types.TypeAndValue{Type: e.tv(a.Lhs[i]).Type}
			vals[i] = coerce(a.Pos(), e.binary(be), want)
		}
	}
	if len(vals) > 1 {
		// parallel assignment: bind through temporaries only if a target occurs on a right-hand side; refuse otherwise
		for i := range a.Lhs {
			for j := range a.Rhs {
				if i != j && mentions(a.Rhs[j], a.Lhs[i].(*ast.Ident).Name) {
					fatal(a.Pos(), "parallel assignment with dependent sides")
				}
			}
		}
	}
	for i := range a.Lhs {
		out += e.bind(a.Lhs[i].(*ast.Ident), vals[i])
	}
	return out
}

func mentions(x ast.Expr, name string) bool {
	found := false
	ast.Inspect(x, func(n ast.Node) bool {
		if id, ok := n.(*ast.Ident); ok && id.Name == name {
			found = true
		}
		return true
	})
	return found
}

func tupleProj(i, n int) string {
	// right-nested pairs: (a, b, c) = (a, (b, c))
	if n == 1 {
		return ""
	}
	s := ""
	for k := 0; k < i; k++ {
		s += ".2"
	}
	if i < n-1 {
		s += ".1"
	}
	return s
}

func (e *fenv) callParts(c *ast.CallExpr) []string {
	fun := unparen(c.Fun)
	var fo *types.Func
	switch f := fun.(type) {
	case *ast.Ident:
		fo, _ = e.obj(f).(*types.Func)
	case *ast.SelectorExpr:
		if sel, ok := e.pi.info.Selections[f]; ok {
			fo, _ = sel.Obj().(*types.Func)
		} else {
			fo, _ = e.obj(f.Sel).(*types.Func)
		}
	}
	if fo == nil {
		fatal(c.Pos(), "call of a non-function")
	}
	return registry[funcKey(fo)].parts
}

// letLike translates a statement that only (re)binds local variables: assignments, ++/--, var declarations,
// `if c { x = e }` (no else, assignments only) and the contract `if c { panic(…) }` (recorded in the shape only).
func (e *fenv) flush() string {
	out := strings.Join(*e.pending, "")
	*e.pending = nil
	return out
}

func (e *fenv) letLike(s ast.Stmt) (string, bool) {
	l, ok := e.letLike1(s)
	if ok {
		// the state updates of calls inside the right-hand sides come first; the binding itself was computed with them
		if p := e.flush(); p != "" {
			l = p + l
		}
	}
	return l, ok
}

func (e *fenv) letLike1(s ast.Stmt) (string, bool) {
	switch v := s.(type) {
	case *ast.AssignStmt:
		for _, l := range v.Lhs {
			if _, ok := l.(*ast.Ident); !ok {
				return "", false
			}
		}
		return e.assign(v), true
	case *ast.IncDecStmt:
		if _, ok := v.X.(*ast.Ident); !ok {
			return "", false
		}
		op := token.ADD_ASSIGN
		if v.Tok == token.DEC {
			op = token.SUB_ASSIGN
		}
		one := &ast.BasicLit{Kind: token.INT, Value: "1", ValuePos: v.Pos()}
		e.pi.info.Types[one] = types.TypeAndValue{Type: e.tv(v.X).Type, Value: constant.MakeInt64(1)}
		return e.assign(&ast.AssignStmt{Lhs: []ast.Expr{v.X}, Tok: op, TokPos: v.TokPos, Rhs: []ast.Expr{one}}), true
	case *ast.DeclStmt:
		gd := v.Decl.(*ast.GenDecl)
		out := ""
		if gd.Tok == token.CONST || gd.Tok == token.TYPE {
			return "", true // constants are folded at their uses; local types by the tables
		}
		if gd.Tok != token.VAR {
			fatal(v.Pos(), "declaration %s", gd.Tok)
		}
		for _, sp := range gd.Specs {
			vs := sp.(*ast.ValueSpec)
			for i, id := range vs.Names {
				o := e.obj(id)
				rep, ok := localReps[e.name+"."+id.Name]
				if !ok {
					rep = defaultRep(id.Pos(), o.Type())
				}
				if len(vs.Values) > 0 {
					out += e.bind(id, e.exprAs(vs.Values[i], rep))
					continue
				}
				z, ok := zeroOf[rep]
				if !ok {
					fatal(id.Pos(), "zero value of carrier %s", rep)
				}
				out += e.bind(id, atomv(z, rep))
			}
		}
		return out, true
	case *ast.IfStmt:
		if v.Init == nil && v.Else == nil && len(v.Body.List) == 1 && isPanic(e, v.Body.List[0]) {
			e.shape = append(e.shape, "panicif("+oneLine(v.Cond)+")")
			return "", true
		}
		return e.ifLet(v)
	}
	return "", false
}

// outerAssigned collects the variables declared outside `list` that `list` assigns, in order of first assignment;
// ok = false if the list contains anything but assignments, ++/--, var declarations and `if`s made of these.
func (e *fenv) outerAssigned(list []ast.Stmt, local, seen map[types.Object]bool, ids *[]*ast.Ident) bool {
	note := func(id *ast.Ident) {
		if id.Name == "_" {
			return
		}
		o := e.obj(id)
		if !local[o] && !seen[o] {
			seen[o] = true
			*ids = append(*ids, id)
		}
	}
	for _, s := range list {
		switch a := s.(type) {
		case *ast.AssignStmt:
			for _, l := range a.Lhs {
				id, ok := l.(*ast.Ident)
				if !ok {
					return false
				}
				if a.Tok == token.DEFINE && e.pi.info.Defs[id] != nil {
					local[e.pi.info.Defs[id]] = true
					continue
				}
				note(id)
			}
		case *ast.IncDecStmt:
			id, ok := a.X.(*ast.Ident)
			if !ok {
				return false
			}
			note(id)
		case *ast.DeclStmt:
			gd, ok := a.Decl.(*ast.GenDecl)
			if !ok || gd.Tok != token.VAR {
				return false
			}
			for _, sp := range gd.Specs {
				for _, id := range sp.(*ast.ValueSpec).Names {
					local[e.obj(id)] = true
				}
			}
		case *ast.IfStmt:
			if a.Init != nil && !e.outerAssigned([]ast.Stmt{a.Init}, local, seen, ids) {
				return false
			}
			if !e.outerAssigned(a.Body.List, local, seen, ids) {
				return false
			}
			if a.Else != nil && !e.outerAssigned(elseStmts(a.Else), local, seen, ids) {
				return false
			}
		case *ast.BlockStmt:
			if !e.outerAssigned(a.List, local, seen, ids) {
				return false
			}
		default:
			return false
		}
	}
	return true
}

func elseStmts(s ast.Stmt) []ast.Stmt {
	switch b := s.(type) {
	case nil:
		return nil
	case *ast.BlockStmt:
		return b.List
	default:
		return []ast.Stmt{b}
	}
}

// ifLet: `if [init;] c { assignments } [else { assignments }]` (nested ifs of the same kind allowed) as ONE binding of
// the outer variables it assigns:  let (x, y) := if c then (…; (x, y)) else (…; (x, y)).
func (e *fenv) ifLet(v *ast.IfStmt) (string, bool) {
	var ids []*ast.Ident
	if !e.outerAssigned([]ast.Stmt{v}, map[types.Object]bool{}, map[types.Object]bool{}, &ids) || len(ids) == 0 {
		return "", false
	}
	for _, id := range ids {
		if _, ok := e.vars[e.obj(id)]; !ok {
			return "", false
		}
	}
	out := ""
	if v.Init != nil {
		l, ok := e.letLike(v.Init)
		if !ok {
			return "", false
		}
		out += l
	}
	c := e.cond(v.Cond)
	var cur, reps []string
	for _, id := range ids {
		cur = append(cur, e.vars[e.obj(id)].s)
		reps = append(reps, e.vars[e.obj(id)].rep)
	}
	branch := func(list []ast.Stmt) (string, bool) {
		en := e.clone()
		body := ""
		for _, st := range list {
			l, ok := en.letLike(st)
			if !ok {
				return "", false
			}
			body += l
		}
		if len(ids) == 1 && len(list) == 1 {
			if _, isIf := list[0].(*ast.IfStmt); !isIf && strings.Count(body, "\nlet ") == 0 {
				// a single assignment: its value
				i := strings.Index(body, ":= ")
				return block(strings.TrimSuffix(body[i+3:], "\n")), true
			}
		}
		var upd []string
		for _, id := range ids {
			upd = append(upd, en.vars[en.obj(id)].s)
		}
		return block(body + tuple(upd)), true
	}
	thenS, ok := branch(v.Body.List)
	if !ok {
		return "", false
	}
	elseS := tuple(cur)
	if v.Else != nil {
		elseS, ok = branch(elseStmts(v.Else))
		if !ok {
			return "", false
		}
	}
	ite := "if " + c + " then " + thenS + "\nelse " + elseS
	if len(ids) == 1 {
		return out + e.bind(ids[0], val{ite, reps[0], false}), true
	}
	tmp := "r'"
	out += fmt.Sprintf("let %s : %s :=\n%s\n", tmp, joinReps(reps), indent(ite, "  "))
	for i, id := range ids {
		out += e.bind(id, atomv(tmp+tupleProj(i, len(ids)), reps[i]))
	}
	return out, true
}

// seq translates a statement list in value mode; `cont` produces the code after the list (nil: the list must return).
func (e *fenv) seq(list []ast.Stmt, rets []string, cont func(*fenv) string) string {
	if len(list) == 0 {
		if cont == nil {
			fatal(e.fd.End(), "%s: control falls off the end", e.name)
		}
		return cont(e)
	}
	s, rest := list[0], list[1:]
	next := func(en *fenv) string { return en.seq(rest, rets, cont) }
	if l, ok := e.letLike(s); ok {
		return l + next(e)
	}
	switch v := s.(type) {
	case *ast.ReturnStmt:
		if len(rest) != 0 {
			fatal(rest[0].Pos(), "statement after return")
		}
		if len(v.Results) != len(rets) {
			if len(v.Results) == 1 {
				// return f(…) of a function with the same results
				if c, ok := unparen(v.Results[0]).(*ast.CallExpr); ok {
					parts := e.callParts(c)
					same := len(parts) == len(rets)
					for i := range parts {
						same = same && parts[i] == rets[i]
					}
					if same {
						return e.flush() + e.expr(c).s
					}
				}
			}
			if len(v.Results) == 0 {
				// named results
				var parts []string
				i := 0
				for _, f := range e.fd.Type.Results.List {
					for _, n := range f.Names {
						parts = append(parts, coerce(v.Pos(), e.expr(n), rets[i]).s)
						i++
					}
				}
				if len(parts) == len(rets) {
					return tuple(parts)
				}
			}
			fatal(v.Pos(), "return of %d values, %d carriers registered", len(v.Results), len(rets))
		}
		var parts []string
		for i, r := range v.Results {
			parts = append(parts, e.exprAs(r, rets[i]).s)
		}
		return tuple(parts)
	case *ast.BlockStmt:
		return e.seq(append(append([]ast.Stmt{}, v.List...), rest...), rets, cont)
	case *ast.IfStmt:
		pre := ""
		if v.Init != nil {
			l, ok := e.letLike(v.Init)
			if !ok {
				fatal(v.Init.Pos(), "init statement `%s` of an if is outside the translated subset", oneLine(v.Init))
			}
			pre = l
		}
		c := e.cond(v.Cond)
		var elseList []ast.Stmt
		if v.Else != nil {
			switch b := v.Else.(type) {
			case *ast.BlockStmt:
				elseList = b.List
			default:
				elseList = []ast.Stmt{b}
			}
		}
		thenTerm := terminates(e, v.Body.List)
		var thenS, elseS string
		if thenTerm {
			thenS = e.clone().seq(v.Body.List, rets, nil)
		} else {
			thenS = e.clone().seq(v.Body.List, rets, next)
		}
		if v.Else != nil {
			if terminates(e, elseList) {
				elseS = e.clone().seq(elseList, rets, nil)
				if thenTerm && len(rest) > 0 {
					fatal(rest[0].Pos(), "unreachable statement")
				}
			} else {
				elseS = e.clone().seq(elseList, rets, next)
			}
		} else {
			elseS = next(e.clone())
		}
		return pre + "if " + c + " then\n" + indent(thenS, "  ") + "\nelse\n" + indent(elseS, "  ")
	case *ast.SwitchStmt:
		if v.Init != nil {
			fatal(v.Pos(), "switch with an init statement")
		}
		return e.switchStmt(v, rets, next)
	}
	fatal(s.Pos(), "statement `%s` (%T) is outside the translated subset", oneLine(s), s)
	return ""
}

func tuple(parts []string) string {
	if len(parts) == 1 {
		return parts[0]
	}
	return "(" + strings.Join(parts, ", ") + ")"
}

func (e *fenv) switchStmt(v *ast.SwitchStmt, rets []string, next func(*fenv) string) string {
	var clauses []*ast.CaseClause
	var def *ast.CaseClause
	for _, cc := range v.Body.List {
		c := cc.(*ast.CaseClause)
		if c.List == nil {
			def = c
			if cc != v.Body.List[len(v.Body.List)-1] {
				fatal(c.Pos(), "default clause that is not last")
			}
			continue
		}
		clauses = append(clauses, c)
	}
	for _, c := range clauses {
		for _, st := range c.Body {
			if b, ok := st.(*ast.BranchStmt); ok {
				fatal(b.Pos(), "%s in a switch", b.Tok)
			}
		}
	}
	body := func(c *ast.CaseClause) string {
		if c == nil {
			return next(e.clone())
		}
		if terminates(e, c.Body) {
			return e.clone().seq(c.Body, rets, nil)
		}
		return e.clone().seq(c.Body, rets, next)
	}
	if v.Tag == nil {
		// switch { case c: … }  ->  if-chain; clauses that only assign one variable: let x := if … (as for `if`)
		allAssign := def == nil
		var ids []*ast.Ident
		for _, c := range clauses {
			a, ok := e.assignedVars(c.Body)
			if !ok || len(a) != 1 || len(c.Body) != 1 || len(c.List) != 1 {
				allAssign = false
				break
			}
			if len(ids) == 1 && e.obj(ids[0]) != e.obj(a[0]) {
				allAssign = false
				break
			}
			ids = a
		}
		if allAssign && len(ids) == 1 {
			cur := e.vars[e.obj(ids[0])]
			s := ""
			rep := cur.rep
			for _, c := range clauses {
				en := e.clone()
				l, ok := en.letLike(c.Body[0])
				if !ok {
					fatal(c.Pos(), "case body")
				}
				i := strings.Index(l, ":= ")
				value := strings.TrimSuffix(l[i+3:], "\n")
				s += "if " + e.cond(c.List[0]) + " then " + block(value) + "\nelse "
			}
			s += cur.s
			out := e.bind(ids[0], val{s, rep, false})
			return out + next(e)
		}
		s := ""
		for _, c := range clauses {
			if len(c.List) != 1 {
				fatal(c.Pos(), "case with several conditions")
			}
			s += "if " + e.cond(c.List[0]) + " then\n" + indent(body(c), "  ") + "\nelse "
		}
		return s + "\n" + indent(body(def), "  ")
	}
	tag := e.expr(v.Tag)
	if tag.rep != "Nat" {
		fatal(v.Tag.Pos(), "switch on a value carried by %s", tag.rep)
	}
	s := "match " + tag.s + " with\n"
	for _, c := range clauses {
		var ks []string
		for _, k := range c.List {
			ktv := e.tv(k)
			if ktv.Value == nil {
				fatal(k.Pos(), "non-constant case")
			}
			ks = append(ks, natLit(k.Pos(), ktv.Value).String())
		}
		s += "| " + strings.Join(ks, " | ") + " =>\n" + indent(body(c), "  ") + "\n"
	}
	s += "| _ =>\n" + indent(body(def), "  ")
	return s
}

// ---------------------------------------------------------------- emitting a pure function

type paramSpec struct {
	name string
	rep  string
}

// funcParams lists receiver and parameters with their carriers (overrides by name from `over`).
func (e *fenv) funcParams(over map[string]string) []paramSpec {
	var ps []paramSpec
	add := func(fl *ast.FieldList) {
		if fl == nil {
			return
		}
		for _, f := range fl.List {
			for _, n := range f.Names {
				o := e.obj(n)
				rep, ok := over[n.Name]
				if !ok {
					rep = defaultRep(n.Pos(), o.Type())
				}
				if rep == "-" {
					if typeKey(o.Type()) == "*s2.encoder" {
						e.encObj = o
					}
					continue
				}
				e.vars[o] = atomv(leanLocal(n.Name), rep)
				ps = append(ps, paramSpec{leanLocal(n.Name), rep})
			}
		}
	}
	add(e.fd.Recv)
	add(e.fd.Type.Params)
	return ps
}

func (g *gen) newEnv(pkg, key string) *fenv {
	pi := g.pkgs[pkg]
	fd := findFunc(pi, key)
	return &fenv{g: g, pi: pi, fd: fd, name: pkg + "." + key, vars: map[types.Object]val{}, pending: new([]string), tmpN: new(int)}
}

func docOf(fd *ast.FuncDecl) string {
	return fmt.Sprintf("/-- %s: `%s` -/\n", relline(fd.Pos()), oneLine(fd.Body))
}

func sig(ps []paramSpec) string {
	s := ""
	for _, p := range ps {
		s += fmt.Sprintf(" (%s : %s)", p.name, p.rep)
	}
	return s
}

// pureFn emits `def lean (params) : ret := body` for a Go function translated in value mode.
func (g *gen) pureFn(out *strings.Builder, pkg, key, lean string, over map[string]string, rets []string, extra ...paramSpec) {
	e := g.newEnv(pkg, key)
	ps := e.funcParams(over)
	ps = append(ps, extra...)
	// named results start as zero values
	if e.fd.Type.Results != nil {
		i := 0
		for _, f := range e.fd.Type.Results.List {
			for _, n := range f.Names {
				if n.Name != "_" && i < len(rets) {
					if z, ok := zeroOf[rets[i]]; ok {
						e.vars[e.obj(n)] = atomv(z, rets[i])
					}
				}
				i++
			}
			if len(f.Names) == 0 {
				i++
			}
		}
	}
	body := e.seq(e.fd.Body.List, rets, nil)
	def := fmt.Sprintf("def %s%s : %s :=\n%s\n", lean, sig(ps), joinReps(rets), indent(body, "  "))
	out.WriteString(docOf(e.fd) + def)
	if len(e.shape) > 0 {
		out.WriteString(fmt.Sprintf("def %s_shape : String := %q\n", lean, strings.Join(e.shape, ";")))
	}
	out.WriteString("\n")
	g.facts = append(g.facts, fact{Name: pkg + "." + key, Kind: "func", Pos: relline(e.fd.Pos()), Lean: lean, Sha256: sha(def)})
}

func joinReps(rs []string) string {
	var ps []string
	for _, r := range rs {
		if len(rs) > 1 {
			r = parenRep(r)
		}
		ps = append(ps, r)
	}
	return strings.Join(ps, " × ")
}
