module translator_c04

go 1.21
