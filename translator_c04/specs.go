package main

// Tables: which Lean type ("carrier") stands for which Go type / struct / function.  They say nothing about the
// function bodies; those are read from the Go source on every run.

// Go type -> carrier
var typeReps = map[string]string{
	"uint64": "UInt64", "s2.CellID": "UInt64",
	"int": "Nat", "uint": "Nat", "int32": "Nat", "uint32": "Nat", "s2.axis": "Nat",
	"untyped int": "Nat",
	"float64":     "F64", "untyped float": "F64",
	"bool": "Bool", "untyped bool": "Bool",
	"s2.Point": "V3", "r3.Vector": "V3", "s2.pointUVW": "V3",
	"r2.Rect": "Rect2", "r1.Interval": "F64 × F64", "r2.Point": "F64 × F64",
	"s2.PaddedCell": "PaddedCell", "s2.clippedEdge": "ClippedEdge", "s2.faceEdge": "FaceEdge",
	"s2.Edge": "V3 × V3", "s2.Metric": "Nat × F64", "s2.ShapeIndex": "-", "s2.tracker": "Tracker",
}

// carrier -> Go field path -> (Lean projection, carrier of the field); "" = transparent (embedded struct);
// "=t" = the model structure does not carry the field, the model function takes it as the explicit parameter t
var fieldReps = map[string]map[string][2]string{
	"V3":        {"X": {"x", "F64"}, "Y": {"y", "F64"}, "Z": {"z", "F64"}, "Vector": {"", "V3"}, "Point": {"", "V3"}},
	"Rect2":     {"X": {"1", "F64 × F64"}, "Y": {"2", "F64 × F64"}},
	"F64 × F64": {"Lo": {"1", "F64"}, "Hi": {"2", "F64"}, "X": {"1", "F64"}, "Y": {"2", "F64"}},
	"PaddedCell": {"id": {"id", "UInt64"}, "level": {"level", "Nat"}, "orientation": {"orientation", "Nat"},
		"iLo": {"iLo", "Nat"}, "jLo": {"jLo", "Nat"}, "padding": {"=padding", "F64"}},
	"ClippedEdge": {"faceEdge": {"fe", "FaceEdge"}, "bound": {"bound", "Rect2"}},
	"FaceEdge": {"shapeID": {"shapeID", "Nat"}, "edgeID": {"edgeID", "Nat"}, "MaxLevel": {"maxLevel", "Nat"},
		"hasInterior": {"hasInterior", "Bool"}, "a": {"a", "F64 × F64"}, "b": {"b", "F64 × F64"},
		"edge.V0": {"v0", "V3"}, "edge.V1": {"v1", "V3"}},
	"V3 × V3":   {"V0": {"1", "V3"}, "V1": {"2", "V3"}},
	"Nat × F64": {"Dim": {"1", "Nat"}, "Deriv": {"2", "F64"}},
	"Tracker": {"isActive": {"isActive", "Bool"}, "a": {"a", "V3"}, "b": {"b", "V3"}, "nextCellID": {"nextCellID", "UInt64"},
		"shapeIDs": {"shapeIDs", "List Nat"}},
}

type structCheck struct {
	gotype string
	lean   string
	exact  bool // the Go struct has exactly these fields in this order
	fields [][2]string
}

var structChecks = []structCheck{
	{"r3.Vector", "S2.V3", true, [][2]string{{"X", "float64"}, {"Y", "float64"}, {"Z", "float64"}}},
	{"s2.Point", "S2.V3", true, [][2]string{{"Vector", "r3.Vector"}}},
	{"s2.pointUVW", "S2.V3", true, [][2]string{{"Vector", "r3.Vector"}}},
	{"r1.Interval", "F64 × F64", true, [][2]string{{"Lo", "float64"}, {"Hi", "float64"}}},
	{"r2.Point", "F64 × F64", true, [][2]string{{"X", "float64"}, {"Y", "float64"}}},
	{"r2.Rect", "S2.CellM.Rect2", true, [][2]string{{"X", "r1.Interval"}, {"Y", "r1.Interval"}}},
	{"s2.Edge", "V3 × V3", true, [][2]string{{"V0", "s2.Point"}, {"V1", "s2.Point"}}},
	{"s2.Metric", "Nat × F64", true, [][2]string{{"Dim", "int"}, {"Deriv", "float64"}}},
	{"s2.PaddedCell", "S2.PaddedCellM.PaddedCell (+ padding as a parameter; bound / middle as separate functions)", true,
		[][2]string{{"id", "s2.CellID"}, {"padding", "float64"}, {"bound", "r2.Rect"}, {"middle", "r2.Rect"}, {"iLo", "int"}, {"jLo", "int"},
			{"orientation", "int"}, {"level", "int"}}},
	{"s2.faceEdge", "S2.IndexBuild.FaceEdge", true, [][2]string{{"shapeID", "int32"}, {"edgeID", "int"}, {"MaxLevel", "int"},
		{"hasInterior", "bool"}, {"a", "r2.Point"}, {"b", "r2.Point"}, {"edge", "s2.Edge"}}},
	{"s2.clippedEdge", "S2.IndexBuild.ClippedEdge", true, [][2]string{{"faceEdge", "*s2.faceEdge"}, {"bound", "r2.Rect"}}},
	{"s2.tracker", "S2.IndexBuild.Tracker (+ savedIDs, only used by the unreachable incremental path)", true,
		[][2]string{{"isActive", "bool"}, {"a", "s2.Point"}, {"b", "s2.Point"}, {"nextCellID", "s2.CellID"}, {"crosser", "*s2.EdgeCrosser"},
			{"shapeIDs", "[]int32"}, {"savedIDs", "[]int32"}}},
	{"s2.clippedShape", "S2.IndexBuild.Clipped", true, [][2]string{{"shapeID", "int32"}, {"containsCenter", "bool"}, {"edges", "[]int"}}},
}

type compositeSpec struct {
	rep         string
	transparent bool
	open, close string
	fields      [][2]string // Go field name, carrier
}

var compositeReps = map[string]compositeSpec{
	"s2.Point":    {rep: "V3", transparent: true},
	"s2.pointUVW": {rep: "V3", transparent: true},
	"r2.Point":    {rep: "F64 × F64", open: "(", close: ")", fields: [][2]string{{"X", "F64"}, {"Y", "F64"}}},
	"r1.Interval": {rep: "F64 × F64", open: "(", close: ")", fields: [][2]string{{"Lo", "F64"}, {"Hi", "F64"}}},
	"r2.Rect":     {rep: "Rect2", open: "(", close: ")", fields: [][2]string{{"X", "F64 × F64"}, {"Y", "F64 × F64"}}},
	"r3.Vector":   {rep: "V3", open: "(⟨", close: "⟩ : V3)", fields: [][2]string{{"X", "F64"}, {"Y", "F64"}, {"Z", "F64"}}},
	"s2.Metric":   {rep: "Nat × F64", open: "(", close: ")", fields: [][2]string{{"Dim", "Nat"}, {"Deriv", "F64"}}},
}

// package-level variables: (Lean term, carrier)
var globalVars = map[string][2]string{
	"s2.posToIJ":          {"S2.Hilbert.posToIJ", "Table2"},
	"s2.ijToPos":          {"S2.Hilbert.ijToPos", "Table2"},
	"s2.posToOrientation": {"S2.Hilbert.posToOrientation", "Table1"},
	"s2.AvgEdgeMetric":    {"S2.Generated.BuildFns.AvgEdgeMetric", "Nat × F64"},
}

// tables indexed by a Nat: Lean function, carrier of the entries
var tableReps = map[string][2]string{}

// carriers with a dedicated equality
var eqReps = map[string]string{"V3": "V3.feq"}

var zeroOf = map[string]string{"Nat": "0", "Int": "0", "UInt64": "0", "Bool": "false",
	"F64":       "(⟨0x0000000000000000⟩ : F64)",
	"F64 × F64": "((⟨0x0000000000000000⟩ : F64), (⟨0x0000000000000000⟩ : F64))",
	"Rect2":     "(((⟨0x0000000000000000⟩ : F64), (⟨0x0000000000000000⟩ : F64)), ((⟨0x0000000000000000⟩ : F64), (⟨0x0000000000000000⟩ : F64)))",
}

// carriers of local variables that differ from the default of their Go type: "pkg.Func.var"
var localReps = map[string]string{
	"s2.Metric.MinLevel.level": "Int",
	"s2.Metric.MaxLevel.level": "Int",
}

// Go function -> model function.  params: receiver first; "-" = dropped (the *ShapeIndex receiver of the clip helpers,
// which they never read).
var registry = map[string]fnSpec{
	// math
	"math.Sqrt":    {lean: "S2.F64.sqrt", params: []string{"F64"}, ret: "F64"},
	"math.Abs":     {lean: "S2.F64.abs", params: []string{"F64"}, ret: "F64"},
	"math.Max":     {lean: "S2.F64.fmax", params: []string{"F64", "F64"}, ret: "F64"},
	"math.Min":     {lean: "S2.F64.fmin", params: []string{"F64", "F64"}, ret: "F64"},
	"math.Signbit": {lean: "S2.F64.signBit", params: []string{"F64"}, ret: "Bool"},
	"math.Ilogb":   {lean: "S2.IndexBuild.ilogb", params: []string{"F64"}, ret: "Int"},
	// r3
	"r3.Vector.Normalize": {lean: "S2.V3.normalize", params: []string{"V3"}, ret: "V3"},
	"r3.Vector.Norm":      {lean: "S2.V3.norm", params: []string{"V3"}, ret: "F64"},
	"r3.Vector.Dot":       {lean: "S2.V3.dot", params: []string{"V3", "V3"}, ret: "F64"},
	"r3.Vector.Cross":     {lean: "S2.V3.cross", params: []string{"V3", "V3"}, ret: "V3"},
	"r3.Vector.Mul":       {lean: "S2.V3.mul", params: []string{"V3", "F64"}, ret: "V3"},
	"r3.Vector.Add":       {lean: "S2.V3.add", params: []string{"V3", "V3"}, ret: "V3"},
	"r3.Vector.Sub":       {lean: "S2.V3.sub", params: []string{"V3", "V3"}, ret: "V3"},
	// r1 / r2 (hand models: S2/CellM.lean, S2/IndexBuild.lean; tied in Ties/C04_Clip.lean)
	"r1.Interval.IsEmpty":     {lean: "S2.CellM.Ivl.isEmpty", params: []string{"F64 × F64"}, ret: "Bool"},
	"r1.Interval.Contains":    {lean: "S2.CellM.Ivl.contains", params: []string{"F64 × F64", "F64"}, ret: "Bool"},
	"r1.Interval.Intersects":  {lean: "S2.CellM.Ivl.intersects", params: []string{"F64 × F64", "F64 × F64"}, ret: "Bool"},
	"r1.Interval.Expanded":    {lean: "S2.CellM.Ivl.expanded", params: []string{"F64 × F64", "F64"}, ret: "F64 × F64"},
	"r1.Interval.AddPoint":    {lean: "S2.IndexBuild.Ivl.addPoint", params: []string{"F64 × F64", "F64"}, ret: "F64 × F64"},
	"r1.Interval.Union":       {lean: "S2.IndexBuild.Ivl.union", params: []string{"F64 × F64", "F64 × F64"}, ret: "F64 × F64"},
	"r1.Interval.ClampPoint":  {lean: "S2.IndexBuild.Ivl.clampPoint", params: []string{"F64 × F64", "F64"}, ret: "F64"},
	"r1.EmptyInterval":        {lean: "S2.CellM.emptyIvl", params: []string{}, ret: "F64 × F64"},
	"r2.EmptyRect":            {lean: "S2.IndexBuild.emptyRect", params: []string{}, ret: "Rect2"},
	"r2.Rect.Expanded":        {lean: "S2.Generated.ClipFns.Rect_Expanded", params: []string{"Rect2", "F64 × F64"}, ret: "Rect2"},
	"r2.Rect.ExpandedByMargin": {lean: "S2.CellM.Rect2.expandedByMargin", params: []string{"Rect2", "F64"}, ret: "Rect2"},
	"r2.Rect.Intersects":      {lean: "S2.CellM.Rect2.intersects", params: []string{"Rect2", "Rect2"}, ret: "Bool"},
	"r2.Rect.AddRect":         {lean: "S2.IndexBuild.Rect2.addRect", params: []string{"Rect2", "Rect2"}, ret: "Rect2"},
	"r2.Rect.VertexIJ":        {lean: "S2.Generated.ClipFns.Rect_VertexIJ", params: []string{"Rect2", "Nat", "Nat"}, ret: "F64 × F64"},
	"r2.RectFromPoints":       {lean: "S2.IndexBuild.rectFromPoints", params: []string{"F64 × F64", "F64 × F64"}, ret: "Rect2"},
	"r2.Point.Sub":            {lean: "S2.Generated.ClipFns.Point_Sub", params: []string{"F64 × F64", "F64 × F64"}, ret: "F64 × F64"},
	"r2.Point.Mul":            {lean: "S2.Generated.ClipFns.Point_Mul", params: []string{"F64 × F64", "F64"}, ret: "F64 × F64"},
	"r2.Point.Ortho":          {lean: "S2.Generated.ClipFns.Point_Ortho", params: []string{"F64 × F64"}, ret: "F64 × F64"},
	"r2.Point.Dot":            {lean: "S2.Generated.ClipFns.Point_Dot", params: []string{"F64 × F64", "F64 × F64"}, ret: "F64"},
	// stuv / cellid (hand models S2.STUV, S2.CellM, S2.CellID, S2.Hilbert; tied by translator_c01 / translator_c09)
	"s2.face":                 {lean: "S2.STUV.face", params: []string{"V3"}, ret: "Nat"},
	"s2.validFaceXYZToUV":     {lean: "S2.STUV.validFaceXYZToUV", params: []string{"Nat", "V3"}, ret: "F64 × F64", parts: []string{"F64", "F64"}},
	"s2.faceUVToXYZ":          {lean: "S2.STUV.faceUVToXYZ", params: []string{"Nat", "F64", "F64"}, ret: "V3"},
	"s2.faceSiTiToXYZ":        {lean: "S2.STUV.faceSiTiToXYZ", params: []string{"Nat", "Nat", "Nat"}, ret: "V3"},
	"s2.faceXYZtoUVW":         {lean: "S2.CellM.faceXYZtoUVW", params: []string{"Nat", "V3"}, ret: "V3"},
	"s2.stToUV":               {lean: "S2.STUV.stToUV", params: []string{"F64"}, ret: "F64"},
	"s2.uvToST":               {lean: "S2.STUV.uvToST", params: []string{"F64"}, ret: "F64"},
	"s2.siTiToST":             {lean: "S2.STUV.siTiToST", params: []string{"Nat"}, ret: "F64"},
	"s2.stToIJ":               {lean: "S2.STUV.stToIJ", params: []string{"F64"}, ret: "Nat", post: ".toNat"},
	"s2.sizeIJ":               {lean: "S2.Hilbert.sizeIJ", params: []string{"Nat"}, ret: "Nat"},
	"s2.cellIDFromFaceIJ":     {lean: "S2.Hilbert.cellIDFromFaceIJ", params: []string{"Nat", "Nat", "Nat"}, ret: "UInt64"},
	"s2.findMSBSetNonZero64":  {lean: "S2.CellID.msbPos", params: []string{"UInt64"}, ret: "Nat"},
	"s2.CellID.Face":          {lean: "S2.CellID.face", params: []string{"UInt64"}, ret: "Nat"},
	"s2.CellID.Parent":        {lean: "S2.CellID.parent", params: []string{"UInt64", "Nat"}, ret: "UInt64"},
	"s2.CellID.RangeMin":      {lean: "S2.CellID.rangeMin", params: []string{"UInt64"}, ret: "UInt64"},
	"s2.Point.PointCross":     {lean: "S2.Crossing.pointCross", params: []string{"V3", "V3"}, ret: "V3"},
	// edge_clipping.go / shapeindex.go / metric.go (hand model S2.IndexBuild; each tied in Ties/C04_Clip, C06_Build)
	"s2.pointUVW.intersectsFace":          {lean: "S2.IndexBuild.intersectsFace", params: []string{"V3"}, ret: "Bool"},
	"s2.pointUVW.intersectsOppositeEdges": {lean: "S2.IndexBuild.intersectsOppositeEdges", params: []string{"V3"}, ret: "Bool"},
	"s2.pointUVW.exitAxis":                {lean: "S2.IndexBuild.exitAxis", params: []string{"V3"}, ret: "Nat"},
	"s2.pointUVW.exitPoint":               {lean: "S2.IndexBuild.exitPoint", params: []string{"V3", "Nat"}, ret: "F64 × F64"},
	"s2.clipDestination": {lean: "S2.IndexBuild.clipDestination", params: []string{"V3", "V3", "V3", "V3", "V3", "F64"}, ret: "(F64 × F64) × Nat",
		parts: []string{"F64 × F64", "Nat"}},
	"s2.ClipToPaddedFace": {lean: "S2.Generated.ClipFns.ClipToPaddedFace", params: []string{"V3", "V3", "Nat", "F64"}, ret: "(F64 × F64) × (F64 × F64) × Bool",
		parts: []string{"F64 × F64", "F64 × F64", "Bool"}},
	"s2.interpolateFloat64": {lean: "S2.IndexBuild.interpolateFloat64", params: []string{"F64", "F64", "F64", "F64", "F64"}, ret: "F64"},
	"s2.sumEqual":           {lean: "S2.Generated.ClipFns.sumEqual", params: []string{"F64", "F64", "F64"}, ret: "Bool"},
	"s2.uvwFace":            {lean: "S2.Generated.ClipFns.uvwFace", params: []string{"Nat", "Nat", "Nat"}, ret: "Nat"},
	"s2.updateEndpoint": {lean: "S2.Generated.ClipFns.updateEndpoint", params: []string{"F64 × F64", "Bool", "F64"}, ret: "(F64 × F64) × Bool",
		parts: []string{"F64 × F64", "Bool"}},
	"s2.clipBoundAxis": {lean: "S2.Generated.ClipFns.clipBoundAxis", params: []string{"F64", "F64", "F64 × F64", "F64", "F64", "F64 × F64", "Bool", "F64 × F64"},
		ret: "(F64 × F64) × (F64 × F64) × Bool", parts: []string{"F64 × F64", "F64 × F64", "Bool"}},
	"s2.clipEdgeBound": {lean: "S2.Generated.ClipFns.clipEdgeBound", params: []string{"F64 × F64", "F64 × F64", "Rect2", "Rect2"}, ret: "Rect2 × Bool",
		parts: []string{"Rect2", "Bool"}},
	"s2.ShapeIndex.updateBound": {lean: "S2.IndexBuild.updateBound", params: []string{"-", "ClippedEdge", "Nat", "F64", "Nat", "F64"}, ret: "ClippedEdge"},
	"s2.ShapeIndex.clipUBound":  {lean: "S2.IndexBuild.clipUBound", params: []string{"-", "ClippedEdge", "Nat", "F64"}, ret: "ClippedEdge"},
	"s2.ShapeIndex.clipVBound":  {lean: "S2.IndexBuild.clipVBound", params: []string{"-", "ClippedEdge", "Nat", "F64"}, ret: "ClippedEdge"},
	"s2.Metric.MinLevel":        {lean: "S2.Generated.BuildFns.Metric_MinLevel", params: []string{"Nat × F64", "F64"}, ret: "Int"},
}
