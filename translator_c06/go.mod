module translator_c06

go 1.21
