// Command translator_c06 extracts the index arithmetic of the Shape accessors
// (NumEdges / Edge / NumChains / Chain / ChainEdge / ChainPosition and the helpers
// they call) of every Shape implementation in <repo>/s2 and emits it, expression by
// expression, as Lean definitions over Int into <out>/ShapeAccessors.lean.
//
// Supported Go subset (enough for the straight-line / if-chain accessors):
//
//	return e | x := e | x = e | var x int | x++ |
//	if c { assignments } | if c { …; return e } | for c { x++ } |
//	if x := e; c { …; return e } | if c { loops } else { loops }  (branches assigning locals) |
//	for x = k; c; x++ { a op= e }  (forInc2) | for x = range slice { if c { a op= e; break } }  (rangeBreak2)
//
// expressions: int literals, locals, + - * % & comparisons && || !, len(slice),
// slice[i], receiver fields, calls of other translated methods, minInt/maxInt,
// Edge{a,b} / Chain{a,b} / ChainPosition{a,b}.
//
// An operation that can panic (slice index, %, a call of a method that can panic)
// is sequenced in the Option monad exactly where Go evaluates it, so a Go panic is
// `none`.  Accessors outside the subset are reported as irregular and left to the
// behavioural correspondence (none at present: Polygon.Edge / Chain / ChainPosition are
// translated with the two-variable loop primitives of S2/ShapesLoops.lean).
//
// usage: translator_c06 -repo /repo -out lean/S2/Generated [-facts facts.json]
package main

import (
	"bytes"
	"crypto/sha256"
	"encoding/json"
	"flag"
	"fmt"
	"go/ast"
	"go/parser"
	"go/printer"
	"go/token"
	"os"
	"path/filepath"
	"regexp"
	"sort"
	"strings"
)

type typeSpec struct {
	goType  string            // receiver type name
	file    string            // file under s2/
	ns      string            // Lean namespace
	state   string            // Lean state type
	lens    map[string]string // source text of slice -> Lean length (Int)
	index   map[string]string // source text of slice -> Lean indexing function (Int -> Option _)
	fields  map[string]string // field -> Lean expr
	nils    map[string]string // source text of slice -> Lean Prop "slice != nil"
	methods []string          // in dependency order
	skip    []string          // known irregular accessors (reported, not translated)
}

var specs = []*typeSpec{
	{goType: "Loop", file: "loop.go", ns: "Loop", state: "LoopS",
		lens:    map[string]string{"RECV.vertices": "(s.n : Int)"},
		index:   map[string]string{"RECV.vertices": "vtx s.n"},
		fields:  map[string]string{"originInside": "s.originInside", "depth": "(s.depth : Int)"},
		methods: []string{"isEmptyOrFull", "ContainsOrigin", "IsEmpty", "IsFull", "IsHole", "Vertex", "OrientedVertex", "NumEdges", "Edge", "NumChains", "Chain", "ChainEdge", "ChainPosition", "NumVertices"}},
	{goType: "Polyline", file: "polyline.go", ns: "Polyline", state: "SeqS",
		lens:    map[string]string{"*RECV": "(s.n : Int)"},
		index:   map[string]string{"(*RECV)": "vtx s.n"},
		methods: []string{"NumEdges", "Edge", "NumChains", "Chain", "ChainEdge", "ChainPosition"}},
	{goType: "LaxPolyline", file: "lax_polyline.go", ns: "LaxPolyline", state: "SeqS",
		lens:    map[string]string{"RECV.vertices": "(s.n : Int)"},
		index:   map[string]string{"RECV.vertices": "vtx s.n"},
		methods: []string{"NumEdges", "Edge", "NumChains", "Chain", "ChainEdge", "ChainPosition"}},
	{goType: "PointVector", file: "point_vector.go", ns: "PointVector", state: "SeqS",
		lens:    map[string]string{"*RECV": "(s.n : Int)"},
		index:   map[string]string{"(*RECV)": "vtx s.n"},
		methods: []string{"NumEdges", "Edge", "NumChains", "Chain", "ChainEdge", "ChainPosition"}},
	{goType: "LaxLoop", file: "lax_loop.go", ns: "LaxLoop", state: "LaxLoopS",
		lens:    map[string]string{"RECV.vertices": "(s.nv : Int)"},
		index:   map[string]string{"RECV.vertices": "vtx s.nv"},
		fields:  map[string]string{"numVertices": "s.numVertices"},
		methods: []string{"NumEdges", "Edge", "NumChains", "Chain", "ChainEdge", "ChainPosition"}},
	{goType: "LaxPolygon", file: "lax_polygon.go", ns: "LaxPolygon", state: "LaxPolygonS",
		lens:    map[string]string{"RECV.vertices": "(s.nv : Int)"},
		index:   map[string]string{"RECV.vertices": "vtx s.nv", "RECV.cumulativeVertices": "s.cumAt"},
		fields:  map[string]string{"numLoops": "s.numLoops", "numVerts": "s.numVerts"},
		methods: []string{"numVertices", "numLoopVertices", "NumEdges", "Edge", "NumChains", "Chain", "ChainEdge", "ChainPosition"}},
	{goType: "Polygon", file: "polygon.go", ns: "Polygon", state: "PolygonS",
		lens:    map[string]string{"RECV.loops": "(s.loops.length : Int)", "RECV.cumulativeEdges": "s.cumLen"},
		index:   map[string]string{"RECV.cumulativeEdges": "s.cumAt"},
		fields:  map[string]string{"numEdges": "s.numEdges"},
		nils:    map[string]string{"RECV.cumulativeEdges": "s.cumulativeEdges ≠ none"},
		methods: []string{"NumLoops", "NumEdges", "NumChains", "ChainEdge", "Edge", "Chain", "ChainPosition"}},
	{goType: "edgeVectorShape", file: "edge_vector_shape_test.go", ns: "EdgeVector", state: "SeqS",
		lens:    map[string]string{"RECV.edges": "(s.n : Int)"},
		index:   map[string]string{"RECV.edges": "edgeAt s.n"},
		methods: []string{"NumEdges", "Edge", "NumChains", "Chain", "ChainEdge", "ChainPosition"}},
}

type method struct {
	spec    *typeSpec
	decl    *ast.FuncDecl
	recv    string
	partial bool
	ret     string // Lean return type
}

var fset = token.NewFileSet()
var methods = map[string]*method{} // "Type.Method"
var irregular []string

func src(n ast.Node) string {
	var b bytes.Buffer
	printer.Fprint(&b, fset, n)
	return b.String()
}

type irregularErr struct{ msg string }

func fail(format string, a ...interface{}) { panic(irregularErr{fmt.Sprintf(format, a...)}) }

// ---------------------------------------------------------------- partiality

func (m *method) canPanic(n ast.Node) bool {
	found := false
	ast.Inspect(n, func(x ast.Node) bool {
		switch v := x.(type) {
		case *ast.IndexExpr:
			found = true
		case *ast.ForStmt:
			found = true
		case *ast.RangeStmt:
			found = true
		case *ast.BinaryExpr:
			if v.Op == token.REM || v.Op == token.QUO {
				found = true
			}
		case *ast.CallExpr:
			if sel, ok := v.Fun.(*ast.SelectorExpr); ok {
				if callee := m.resolve(sel); callee != nil && callee.partial {
					found = true
				}
				if inner, ok := sel.X.(*ast.CallExpr); ok {
					if isel, ok := inner.Fun.(*ast.SelectorExpr); ok && isel.Sel.Name == "Loop" {
						found = true // p.Loop(i) indexes p.loops
					}
				}
			}
		}
		return !found
	})
	return found
}

// resolve a method call `recv.M` on the current receiver.
func (m *method) resolve(sel *ast.SelectorExpr) *method {
	if id, ok := sel.X.(*ast.Ident); ok && id.Name == m.recv {
		return methods[m.spec.goType+"."+sel.Sel.Name]
	}
	return nil
}

// ---------------------------------------------------------------- translation

type ctx struct {
	m    *method
	tmp  int
	lets []string // pending prelude lines for the expression being translated
	tail string   // non-empty: the statement list does not return; it ends with `pure <tail>` (the locals it assigned)
}

func (c *ctx) fresh() string { c.tmp++; return fmt.Sprintf("t%d", c.tmp) }

func (c *ctx) recvText(s string) string {
	// normalise the receiver name in a source text key
	return regexp.MustCompile(`\b`+regexp.QuoteMeta(c.m.recv)+`\b`).ReplaceAllString(s, "RECV")
}

func (c *ctx) bind(rhs string) string {
	if !c.m.partial {
		fail("panicking operation in a function classified total: %s", rhs)
	}
	t := c.fresh()
	c.lets = append(c.lets, fmt.Sprintf("let %s ← %s", t, rhs))
	return t
}

func (c *ctx) lenOf(x ast.Expr) string {
	key := c.recvText(src(x))
	if v, ok := c.m.spec.lens[key]; ok {
		return v
	}
	// len(p.Loop(X).vertices)  (Polygon): p.Loop(X) indexes p.loops
	if sel, ok := x.(*ast.SelectorExpr); ok && sel.Sel.Name == "vertices" && c.m.spec.goType == "Polygon" {
		if inner, ok := sel.X.(*ast.CallExpr); ok {
			if isel, ok := inner.Fun.(*ast.SelectorExpr); ok && isel.Sel.Name == "Loop" && len(inner.Args) == 1 {
				if id, ok := isel.X.(*ast.Ident); ok && id.Name == c.m.recv {
					lp := c.bind("s.loopAt " + c.atom(inner.Args[0]))
					return fmt.Sprintf("(%s.n : Int)", lp)
				}
			}
		}
	}
	fail("len of unknown slice %s", src(x))
	return ""
}

var cmpOps = map[token.Token]string{token.EQL: "=", token.NEQ: "≠", token.LSS: "<", token.LEQ: "≤", token.GTR: ">", token.GEQ: "≥"}

// cond translates a boolean expression to a Lean Prop.
func (c *ctx) cond(e ast.Expr) string {
	switch v := e.(type) {
	case *ast.ParenExpr:
		return "(" + c.cond(v.X) + ")"
	case *ast.BinaryExpr:
		if id, ok := v.Y.(*ast.Ident); ok && id.Name == "nil" && (v.Op == token.NEQ || v.Op == token.EQL) {
			if pr, ok := c.m.spec.nils[c.recvText(src(v.X))]; ok {
				if v.Op == token.NEQ {
					return pr
				}
				return "¬ (" + pr + ")"
			}
			fail("nil test of unknown slice %s", src(v.X))
		}
		if op, ok := cmpOps[v.Op]; ok {
			return fmt.Sprintf("%s %s %s", c.expr(v.X), op, c.expr(v.Y))
		}
		if v.Op == token.LAND || v.Op == token.LOR {
			l := c.cond(v.X)
			n := len(c.lets)
			r := c.cond(v.Y)
			if len(c.lets) != n {
				fail("panicking operand on the right of a short-circuit operator: %s", src(e))
			}
			if v.Op == token.LAND {
				return fmt.Sprintf("(%s ∧ %s)", l, r)
			}
			return fmt.Sprintf("(%s ∨ %s)", l, r)
		}
	case *ast.UnaryExpr:
		if v.Op == token.NOT {
			return "¬ (" + c.cond(v.X) + ")"
		}
	}
	return c.expr(e) + " = true"
}

// expr translates a value expression (Int, Bool, label, tuple).
func (c *ctx) expr(e ast.Expr) string {
	switch v := e.(type) {
	case *ast.BasicLit:
		if v.Kind == token.INT {
			return v.Value
		}
	case *ast.Ident:
		return v.Name
	case *ast.ParenExpr:
		return "(" + c.expr(v.X) + ")"
	case *ast.UnaryExpr:
		switch v.Op {
		case token.SUB:
			return "(- " + c.expr(v.X) + ")"
		case token.NOT:
			return "(!" + c.expr(v.X) + ")"
		}
	case *ast.BinaryExpr:
		switch v.Op {
		case token.ADD, token.SUB, token.MUL:
			return fmt.Sprintf("(%s %s %s)", c.expr(v.X), v.Op.String(), c.expr(v.Y))
		case token.REM:
			a, b := c.expr(v.X), c.expr(v.Y)
			return c.bind(fmt.Sprintf("modI %s %s", a, b))
		case token.AND:
			return fmt.Sprintf("(andI %s %s)", c.expr(v.X), c.expr(v.Y))
		case token.LAND:
			l := c.expr(v.X)
			n := len(c.lets)
			r := c.expr(v.Y)
			if len(c.lets) != n {
				fail("panicking operand on the right of &&: %s", src(e))
			}
			return fmt.Sprintf("(%s && %s)", l, r)
		case token.LOR:
			l := c.expr(v.X)
			n := len(c.lets)
			r := c.expr(v.Y)
			if len(c.lets) != n {
				fail("panicking operand on the right of ||: %s", src(e))
			}
			return fmt.Sprintf("(%s || %s)", l, r)
		}
		if _, ok := cmpOps[v.Op]; ok {
			return "decide (" + c.cond(e) + ")"
		}
	case *ast.SelectorExpr:
		if id, ok := v.X.(*ast.Ident); ok && id.Name == c.m.recv {
			if f, ok := c.m.spec.fields[v.Sel.Name]; ok {
				return f
			}
		}
	case *ast.IndexExpr:
		key := c.recvText(src(v.X))
		if f, ok := c.m.spec.index[key]; ok {
			return c.bind(fmt.Sprintf("%s %s", f, c.expr(v.Index)))
		}
		fail("index of unknown slice %s", src(v.X))
	case *ast.CompositeLit:
		name := src(v.Type)
		if (name == "Edge" || name == "Chain" || name == "ChainPosition") && len(v.Elts) == 2 {
			a := c.expr(v.Elts[0])
			b := c.expr(v.Elts[1])
			return fmt.Sprintf("(%s, %s)", a, b)
		}
	case *ast.CallExpr:
		if id, ok := v.Fun.(*ast.Ident); ok {
			switch id.Name {
			case "len":
				return c.lenOf(v.Args[0])
			case "minInt", "maxInt":
				return fmt.Sprintf("(%s %s %s)", id.Name, c.expr(v.Args[0]), c.expr(v.Args[1]))
			}
		}
		if sel, ok := v.Fun.(*ast.SelectorExpr); ok {
			var args []string
			if callee := c.m.resolve(sel); callee != nil {
				for _, a := range v.Args {
					args = append(args, c.atom(a))
				}
				call := strings.TrimSpace(fmt.Sprintf("%s.%s s %s", c.m.spec.ns, sel.Sel.Name, strings.Join(args, " ")))
				if callee.partial {
					return c.bind(call)
				}
				return "(" + call + ")"
			}
			// p.Loop(X).OrientedVertex(Y)  (Polygon): label (X, index within the loop)
			if inner, ok := sel.X.(*ast.CallExpr); ok {
				if isel, ok := inner.Fun.(*ast.SelectorExpr); ok && isel.Sel.Name == "Loop" && c.m.spec.goType == "Polygon" {
					lm := methods["Loop."+sel.Sel.Name]
					if lm != nil && lm.ret == "Int" {
						li := c.atom(inner.Args[0])
						lp := c.bind("s.loopAt " + li)
						for _, a := range v.Args {
							args = append(args, c.atom(a))
						}
						call := strings.TrimSpace(fmt.Sprintf("Loop.%s %s %s", sel.Sel.Name, lp, strings.Join(args, " ")))
						if src(lm.decl.Type.Results.List[0].Type) == "int" {
							// an int-valued Loop method: a plain value, not a vertex label
							if lm.partial {
								return c.bind(call)
							}
							return "(" + call + ")"
						}
						if lm.partial {
							return fmt.Sprintf("(%s, %s)", li, c.bind(call))
						}
						return fmt.Sprintf("(%s, %s)", li, call)
					}
				}
			}
		}
	}
	fail("unsupported expression %s", src(e))
	return ""
}

func (c *ctx) atom(e ast.Expr) string {
	s := c.expr(e)
	if strings.ContainsAny(s, " ") && !strings.HasPrefix(s, "(") {
		return "(" + s + ")"
	}
	return s
}

func (c *ctx) flush(ind string, out *[]string) {
	for _, l := range c.lets {
		*out = append(*out, ind+l)
	}
	c.lets = nil
}

func returns(stmts []ast.Stmt) bool {
	if len(stmts) == 0 {
		return false
	}
	_, ok := stmts[len(stmts)-1].(*ast.ReturnStmt)
	return ok
}

// stmts translates a statement list that ends in a return into Lean lines.
func (c *ctx) stmts(list []ast.Stmt, ind string) []string {
	var out []string
	if len(list) == 0 {
		if c.tail != "" {
			return []string{ind + "pure " + c.tail}
		}
		fail("function body falls off the end")
	}
	st, rest := list[0], list[1:]
	ret := func(e string) string {
		if c.m.partial {
			return "pure " + e
		}
		return e
	}
	switch v := st.(type) {
	case *ast.ReturnStmt:
		if c.tail != "" {
			fail("return inside a branch that assigns locals")
		}
		if len(v.Results) != 1 {
			fail("return arity")
		}
		e := c.atom(v.Results[0])
		c.flush(ind, &out)
		return append(out, ind+ret(e))
	case *ast.DeclStmt:
		gd := v.Decl.(*ast.GenDecl)
		for _, sp := range gd.Specs {
			vs := sp.(*ast.ValueSpec)
			if len(vs.Values) != 0 || src(vs.Type) != "int" {
				fail("unsupported var decl %s", src(st))
			}
			for _, n := range vs.Names {
				out = append(out, fmt.Sprintf("%slet %s : Int := 0", ind, n.Name))
			}
		}
		return append(out, c.stmts(rest, ind)...)
	case *ast.AssignStmt:
		if len(v.Lhs) != 1 || len(v.Rhs) != 1 {
			fail("unsupported assignment %s", src(st))
		}
		id, ok := v.Lhs[0].(*ast.Ident)
		if !ok {
			fail("assignment to non-local %s", src(st))
		}
		var e string
		switch v.Tok {
		case token.DEFINE, token.ASSIGN:
			e = c.expr(v.Rhs[0])
		case token.ADD_ASSIGN:
			e = fmt.Sprintf("%s + %s", id.Name, c.expr(v.Rhs[0]))
		case token.SUB_ASSIGN:
			e = fmt.Sprintf("%s - %s", id.Name, c.expr(v.Rhs[0]))
		default:
			fail("unsupported assignment %s", src(st))
		}
		c.flush(ind, &out)
		out = append(out, fmt.Sprintf("%slet %s : Int := %s", ind, id.Name, e))
		return append(out, c.stmts(rest, ind)...)
	case *ast.IncDecStmt:
		id, ok := v.X.(*ast.Ident)
		if !ok || v.Tok != token.INC {
			fail("unsupported %s", src(st))
		}
		out = append(out, fmt.Sprintf("%slet %s : Int := %s + 1", ind, id.Name, id.Name))
		return append(out, c.stmts(rest, ind)...)
	case *ast.IfStmt:
		if v.Init != nil {
			// if x := e; c { … }  ==  x := e; if c { … }   (x is fresh, so widening its scope is harmless)
			as, ok := v.Init.(*ast.AssignStmt)
			if !ok || as.Tok != token.DEFINE || len(as.Lhs) != 1 || len(as.Rhs) != 1 {
				fail("unsupported if-init %s", src(v.Init))
			}
			id, ok := as.Lhs[0].(*ast.Ident)
			if !ok {
				fail("unsupported if-init %s", src(v.Init))
			}
			e := c.expr(as.Rhs[0])
			c.flush(ind, &out)
			out = append(out, fmt.Sprintf("%slet %s : Int := %s", ind, id.Name, e))
		}
		cd := c.cond(v.Cond)
		c.flush(ind, &out)
		if v.Else != nil {
			eb, ok := v.Else.(*ast.BlockStmt)
			if ok && !returns(v.Body.List) && !returns(eb.List) {
				// both branches only assign locals: the if/else yields the tuple of the assigned locals
				vars := assignedVars(v.Body.List, eb.List)
				if len(vars) == 0 {
					fail("if/else without effect")
				}
				tup := "(" + strings.Join(vars, ", ") + ")"
				if len(vars) == 1 {
					tup = vars[0]
				}
				sub1 := &ctx{m: c.m, tmp: c.tmp, tail: tup}
				b1 := sub1.block(v.Body.List, ind+"    ")
				sub2 := &ctx{m: c.m, tmp: sub1.tmp, tail: tup}
				b2 := sub2.block(eb.List, ind+"    ")
				c.tmp = sub2.tmp
				out = append(out, fmt.Sprintf("%slet %s ← if %s then", ind, tup, cd))
				out = append(out, b1...)
				out = append(out, ind+"  else")
				out = append(out, b2...)
				return append(out, c.stmts(rest, ind)...)
			}
			if !ok || !returns(v.Body.List) || !returns(eb.List) {
				fail("if/else whose branches do not both return")
			}
			out = append(out, fmt.Sprintf("%sif %s then", ind, cd))
			out = append(out, c.block(v.Body.List, ind+"  ")...)
			out = append(out, ind+"else")
			return append(out, c.block(eb.List, ind+"  ")...)
		}
		if returns(v.Body.List) {
			out = append(out, fmt.Sprintf("%sif %s then", ind, cd))
			out = append(out, c.block(v.Body.List, ind+"  ")...)
			out = append(out, ind+"else")
			return append(out, c.block(rest, ind+"  ")...)
		}
		// conditional assignments to locals
		for _, b := range v.Body.List {
			as, ok := b.(*ast.AssignStmt)
			if !ok || len(as.Lhs) != 1 || as.Tok != token.ASSIGN {
				fail("if body is neither a return nor plain assignments: %s", src(b))
			}
			id, ok := as.Lhs[0].(*ast.Ident)
			if !ok {
				fail("assignment to non-local %s", src(b))
			}
			e := c.expr(as.Rhs[0])
			if len(c.lets) > 0 {
				pre := strings.Join(c.lets, "; ")
				c.lets = nil
				out = append(out, fmt.Sprintf("%slet %s : Int ← if %s then (do %s; pure %s) else pure %s", ind, id.Name, cd, pre, e, id.Name))
			} else {
				out = append(out, fmt.Sprintf("%slet %s : Int := if %s then %s else %s", ind, id.Name, cd, e, id.Name))
			}
		}
		return append(out, c.stmts(rest, ind)...)
	case *ast.RangeStmt:
		// for x = range slice { if c { a op= e; break } }
		x, ok := v.Key.(*ast.Ident)
		if !ok || v.Value != nil || v.Tok != token.ASSIGN || len(v.Body.List) != 1 {
			fail("unsupported range loop")
		}
		ifs, ok := v.Body.List[0].(*ast.IfStmt)
		if !ok || ifs.Init != nil || ifs.Else != nil || len(ifs.Body.List) != 2 {
			fail("unsupported range body")
		}
		br, ok := ifs.Body.List[1].(*ast.BranchStmt)
		if !ok || br.Tok != token.BREAK || br.Label != nil {
			fail("unsupported range body")
		}
		a, stepE := c.accStep(ifs.Body.List[0])
		n := c.lenOf(v.X)
		condE := c.condOpt(ifs.Cond)
		out = append(out, fmt.Sprintf("%slet (%s, %s) ← rangeBreak2 %s (fun %s %s => %s) (fun %s %s => %s) %s %s",
			ind, x.Name, a, n, x.Name, a, condE, x.Name, a, stepE, x.Name, a))
		return append(out, c.stmts(rest, ind)...)
	case *ast.ForStmt:
		if v.Init != nil && v.Post != nil && v.Cond != nil && len(v.Body.List) == 1 {
			// for x = k; c; x++ { a op= e }
			is, ok := v.Init.(*ast.AssignStmt)
			if !ok || len(is.Lhs) != 1 || len(is.Rhs) != 1 || (is.Tok != token.ASSIGN && is.Tok != token.DEFINE) {
				fail("unsupported for-init %s", src(v.Init))
			}
			x, ok := is.Lhs[0].(*ast.Ident)
			if !ok {
				fail("unsupported for-init %s", src(v.Init))
			}
			post, ok := v.Post.(*ast.IncDecStmt)
			if !ok || post.Tok != token.INC || src(post.X) != x.Name {
				fail("unsupported for-post %s", src(v.Post))
			}
			x0 := c.expr(is.Rhs[0])
			c.flush(ind, &out)
			out = append(out, fmt.Sprintf("%slet %s : Int := %s", ind, x.Name, x0))
			a, stepE := c.accStep(v.Body.List[0])
			condE := c.condOpt(v.Cond)
			out = append(out, fmt.Sprintf("%slet (%s, %s) ← forInc2 (fun %s %s => %s) (fun %s %s => %s) s.fuel %s %s",
				ind, x.Name, a, x.Name, a, condE, x.Name, a, stepE, x.Name, a))
			return append(out, c.stmts(rest, ind)...)
		}
		if v.Init != nil || v.Post != nil || v.Cond == nil || len(v.Body.List) != 1 {
			fail("unsupported for loop")
		}
		inc, ok := v.Body.List[0].(*ast.IncDecStmt)
		if !ok || inc.Tok != token.INC {
			fail("unsupported for body")
		}
		x := inc.X.(*ast.Ident).Name
		sub := &ctx{m: c.m, tmp: c.tmp + 100}
		cd := sub.cond(v.Cond)
		pre := ""
		if len(sub.lets) > 0 {
			pre = strings.Join(sub.lets, "; ") + "; "
		}
		out = append(out, fmt.Sprintf("%slet %s : Int ← whileInc (fun %s => do %spure (decide (%s))) s.fuel %s", ind, x, x, pre, cd, x))
		return append(out, c.stmts(rest, ind)...)
	}
	fail("unsupported statement %s", src(st))
	return nil
}

// condOpt translates a loop condition to a Lean `Option Bool`; a panicking right operand of `||` / `&&`
// is evaluated only when Go evaluates it.
func (c *ctx) condOpt(e ast.Expr) string {
	sub := &ctx{m: c.m, tmp: c.tmp + 100}
	if be, ok := e.(*ast.BinaryExpr); ok && (be.Op == token.LOR || be.Op == token.LAND) {
		l := sub.cond(be.X)
		pre := ""
		if len(sub.lets) > 0 {
			pre = strings.Join(sub.lets, "; ") + "; "
			sub.lets = nil
		}
		r := sub.condOpt(be.Y)
		if be.Op == token.LOR {
			return fmt.Sprintf("do %sif %s then pure true else (%s)", pre, l, r)
		}
		return fmt.Sprintf("do %sif %s then (%s) else pure false", pre, l, r)
	}
	cd := sub.cond(e)
	pre := ""
	if len(sub.lets) > 0 {
		pre = strings.Join(sub.lets, "; ") + "; "
	}
	return fmt.Sprintf("do %spure (decide (%s))", pre, cd)
}

// accStep translates the loop body `a op= e` to (a, Lean `Option Int` giving the new a).
func (c *ctx) accStep(st ast.Stmt) (string, string) {
	as, ok := st.(*ast.AssignStmt)
	if !ok || len(as.Lhs) != 1 || len(as.Rhs) != 1 {
		fail("unsupported loop body %s", src(st))
	}
	id, ok := as.Lhs[0].(*ast.Ident)
	if !ok {
		fail("unsupported loop body %s", src(st))
	}
	sub := &ctx{m: c.m, tmp: c.tmp + 200}
	e := sub.expr(as.Rhs[0])
	switch as.Tok {
	case token.ASSIGN:
	case token.ADD_ASSIGN:
		e = fmt.Sprintf("(%s + %s)", id.Name, e)
	case token.SUB_ASSIGN:
		e = fmt.Sprintf("(%s - %s)", id.Name, e)
	default:
		fail("unsupported loop body %s", src(st))
	}
	pre := ""
	if len(sub.lets) > 0 {
		pre = strings.Join(sub.lets, "; ") + "; "
	}
	return id.Name, fmt.Sprintf("do %spure %s", pre, e)
}

// assignedVars lists, in order of first appearance, the already declared locals assigned in the blocks.
func assignedVars(blocks ...[]ast.Stmt) []string {
	var vars []string
	seen := map[string]bool{}
	declared := map[string]bool{}
	add := func(e ast.Expr) {
		if id, ok := e.(*ast.Ident); ok && !seen[id.Name] && !declared[id.Name] {
			seen[id.Name] = true
			vars = append(vars, id.Name)
		}
	}
	for _, b := range blocks {
		for _, st := range b {
			ast.Inspect(st, func(x ast.Node) bool {
				switch v := x.(type) {
				case *ast.AssignStmt:
					for _, l := range v.Lhs {
						if v.Tok == token.DEFINE {
							if id, ok := l.(*ast.Ident); ok {
								declared[id.Name] = true
							}
						} else {
							add(l)
						}
					}
				case *ast.IncDecStmt:
					add(v.X)
				case *ast.RangeStmt:
					if v.Tok == token.ASSIGN && v.Key != nil {
						add(v.Key)
					}
				}
				return true
			})
		}
	}
	return vars
}

func (c *ctx) block(list []ast.Stmt, ind string) []string {
	lines := c.stmts(list, ind)
	if c.m.partial && len(lines) > 1 {
		// nested do block
		lines[0] = ind + "(do " + strings.TrimPrefix(lines[0], ind)
		for i := 1; i < len(lines); i++ {
			lines[i] = "    " + lines[i]
		}
		lines[len(lines)-1] += ")"
	} else if !c.m.partial && len(lines) > 1 {
		lines[0] = ind + "(" + strings.TrimPrefix(lines[0], ind)
		for i := 1; i < len(lines); i++ {
			lines[i] = " " + lines[i]
		}
		lines[len(lines)-1] += ")"
	}
	return lines
}

func leanRet(t string) string {
	switch t {
	case "int":
		return "Int"
	case "bool":
		return "Bool"
	case "Point":
		return "Int"
	case "Edge":
		return "EdgeL"
	case "Chain", "ChainPosition":
		return "Int × Int"
	}
	return ""
}

func main() {
	repo := flag.String("repo", "/repo", "golang/geo checkout")
	outDir := flag.String("out", "", "output directory (lean/S2/Generated)")
	facts := flag.String("facts", "", "facts.json to write")
	flag.Parse()
	if *outDir == "" {
		fmt.Fprintln(os.Stderr, "need -out")
		os.Exit(2)
	}
	// parse and collect
	for _, sp := range specs {
		f, err := parser.ParseFile(fset, filepath.Join(*repo, "s2", sp.file), nil, 0)
		if err != nil {
			fmt.Fprintln(os.Stderr, err)
			os.Exit(1)
		}
		for _, d := range f.Decls {
			fd, ok := d.(*ast.FuncDecl)
			if !ok || fd.Recv == nil || len(fd.Recv.List) != 1 || fd.Body == nil {
				continue
			}
			rt := strings.TrimPrefix(src(fd.Recv.List[0].Type), "*")
			if rt != sp.goType {
				continue
			}
			want := false
			for _, mn := range sp.methods {
				if mn == fd.Name.Name {
					want = true
				}
			}
			if !want {
				continue
			}
			recv := "_"
			if len(fd.Recv.List[0].Names) == 1 {
				recv = fd.Recv.List[0].Names[0].Name
			}
			ret := ""
			if fd.Type.Results != nil && len(fd.Type.Results.List) == 1 {
				ret = leanRet(src(fd.Type.Results.List[0].Type))
			}
			methods[sp.goType+"."+fd.Name.Name] = &method{spec: sp, decl: fd, recv: recv, ret: ret}
		}
	}
	// Polygon labels are pairs
	for _, n := range []string{"Polygon.ChainEdge", "Polygon.Edge"} {
		if m := methods[n]; m != nil {
			m.ret = "(Int × Int) × (Int × Int)"
		}
	}
	// partiality fixpoint
	for changed := true; changed; {
		changed = false
		for _, m := range methods {
			if !m.partial && m.canPanic(m.decl.Body) {
				m.partial = true
				changed = true
			}
		}
	}
	var b strings.Builder
	b.WriteString("/-\n  GENERATED by translator_c06 from s2/{loop,polygon,polyline,lax_loop,lax_polygon,lax_polyline,point_vector,\n  edge_vector_shape_test}.go — do not edit.  The index arithmetic of the Shape accessors, expression by\n  expression; Go `int` = `Int`, a Go panic = `none`.  See S2/ShapesBase.lean, S2/ShapesLoops.lean for the primitives.\n-/\nimport S2.ShapesLoops\nset_option linter.unusedVariables false\nnamespace S2\nnamespace Generated\nopen S2.Shapes\n")
	type fact struct {
		Name    string `json:"name"`
		Status  string `json:"status"`
		Partial bool   `json:"can_panic"`
		Why     string `json:"why,omitempty"`
	}
	var fl []fact
	for _, sp := range specs {
		fmt.Fprintf(&b, "\nnamespace %s\n", sp.ns)
		for _, mn := range sp.methods {
			m := methods[sp.goType+"."+mn]
			full := sp.goType + "." + mn
			if m == nil {
				irregular = append(irregular, full+": method not found")
				fl = append(fl, fact{full, "missing", false, "method not found in " + sp.file})
				continue
			}
			text, err := emit(m)
			if err != "" {
				irregular = append(irregular, full+": "+err)
				fl = append(fl, fact{full, "irregular", m.partial, err})
				fmt.Fprintf(&b, "-- %s: not translated (%s)\n", mn, err)
				continue
			}
			fl = append(fl, fact{full, "translated", m.partial, ""})
			b.WriteString(text)
		}
		for _, mn := range sp.skip {
			fl = append(fl, fact{sp.goType + "." + mn, "irregular", true, "loop updating several variables / range with break: left to the behavioural correspondence"})
			fmt.Fprintf(&b, "-- %s: irregular (loop updating several variables / range with break), left to the behavioural correspondence\n", mn)
		}
		fmt.Fprintf(&b, "end %s\n", sp.ns)
	}
	b.WriteString("\nend Generated\nend S2\n")
	if err := os.MkdirAll(*outDir, 0o755); err != nil {
		fmt.Fprintln(os.Stderr, err)
		os.Exit(1)
	}
	if err := os.WriteFile(filepath.Join(*outDir, "ShapeAccessors.lean"), []byte(b.String()), 0o644); err != nil {
		fmt.Fprintln(os.Stderr, err)
		os.Exit(1)
	}
	sort.Strings(irregular)
	if *facts != "" {
		h := sha256.Sum256([]byte(b.String()))
		js, _ := json.MarshalIndent(map[string]interface{}{"shape_accessors_sha256": fmt.Sprintf("%x", h[:8]), "accessors": fl}, "", " ")
		os.WriteFile(*facts, js, 0o644)
	}
	for _, s := range irregular {
		fmt.Println("irregular:", s)
	}
}

func emit(m *method) (text string, errmsg string) {
	defer func() {
		if r := recover(); r != nil {
			if ie, ok := r.(irregularErr); ok {
				text, errmsg = "", ie.msg
				return
			}
			panic(r)
		}
	}()
	if m.ret == "" {
		fail("unsupported result type")
	}
	var params []string
	for _, f := range m.decl.Type.Params.List {
		if src(f.Type) != "int" {
			fail("non-int parameter")
		}
		for _, n := range f.Names {
			params = append(params, n.Name)
		}
	}
	c := &ctx{m: m}
	lines := c.stmts(m.decl.Body.List, "  ")
	sig := fmt.Sprintf("def %s (s : %s)", m.decl.Name.Name, m.spec.state)
	if len(params) > 0 {
		sig += fmt.Sprintf(" (%s : Int)", strings.Join(params, " "))
	}
	var b strings.Builder
	fmt.Fprintf(&b, "/-- %s -/\n", strings.ReplaceAll(strings.Join(strings.Fields(src(m.decl.Body)), " "), "-/", "- /"))
	if m.partial {
		fmt.Fprintf(&b, "%s : Option (%s) := do\n", sig, m.ret)
	} else {
		fmt.Fprintf(&b, "%s : %s :=\n", sig, m.ret)
	}
	b.WriteString(strings.Join(lines, "\n"))
	b.WriteString("\n")
	return b.String(), ""
}
